"""Separable-convolution parameter block rules (C18): layout agreement of writer/acceptor/readers, write accounting, kernel table."""
import sympy
from collections import defaultdict
from ..build import AnalysisBroken
from . import common
from .geometry import linear

W, H, BX, BY = sympy.symbols('w h bx by', integer=True, nonnegative=True)
HDR = {0: W, 1: H, 2: BX, 3: BY}
TOTAL = 4 + W * 2 ** BX + H * 2 ** BY


class Sym:
    """symbolic integer evaluator over one function: parameter-block header loads become w,h,bx,by"""

    def __init__(self, P, f, env=None):
        self.P = P; self.f = f; self.env = dict(env or {}); self.opaque = {}

    def header_index(self, o):
        """k if pointer operand o is &params[k] with params = common.filter_params or a pixman_fixed_t* parameter"""
        f = self.f
        x = f.v(f.strip_casts(o))
        k = 0
        if x is not None and x.op == 'getelementptr':
            idx = [st for st in x.d['path'] if st[0] in ('p', 'x')]
            if len(idx) != 1 or idx[0][1][0] != 'c':
                return None
            k = int(idx[0][1][1]); base = x.a[0]
        else:
            base = o
        b = f.v(f.strip_casts(base))
        sb = f.strip_casts(base)
        if b is not None and b.op == 'load' and f.last_field(f.path(b.a[0])) == 'image_common.filter_params':
            return k
        if sb[0] == 'a' and f.params[sb[1]][1] == 'i32*' and 'param' in (f.params[sb[1]][0] or ''):
            return k
        return None

    def ev(self, o, depth=0):
        f = self.f
        if depth > 40:
            return None
        if o[0] == 'c':
            return sympy.Integer(int(o[1]))
        if o[0] == 'a':
            return self.env.get(('arg', o[1]), self._op(('arg', o[1])))
        if o[0] != 'v':
            return None
        if ('v', o[1]) in self.env:
            return self.env[('v', o[1])]
        x = f.by_id[o[1]]
        if x.op in ('sext', 'zext', 'trunc', 'freeze'):
            return self.ev(x.a[0], depth + 1)
        if x.op == 'load':
            k = self.header_index(x.a[0])
            if k is not None and k in HDR:
                return HDR[k] * 65536        # the raw 16.16 header word
            return self._op(('v', x.i))
        if x.op in ('add', 'sub', 'mul'):
            a = self.ev(x.a[0], depth + 1); b = self.ev(x.a[1], depth + 1)
            if a is None or b is None:
                return None
            return {'add': a + b, 'sub': a - b, 'mul': a * b}[x.op]
        if x.op == 'shl':
            a = self.ev(x.a[0], depth + 1); b = self.ev(x.a[1], depth + 1)
            if a is None or b is None:
                return None
            return a * 2 ** b
        if x.op in ('ashr', 'lshr'):
            a = self.ev(x.a[0], depth + 1); b = self.ev(x.a[1], depth + 1)
            if a is None or b is None or not b.is_Integer:
                return self._op(('v', x.i))
            q = sympy.simplify(a / 2 ** int(b))
            # exact only when the dividend is a multiple (header words are value * 65536)
            if q.is_polynomial() and all(c.is_Integer for c in sympy.Poly(q, *sorted(q.free_symbols, key=str)).coeffs()) if q.free_symbols else q.is_Integer:
                return q
            return self._op(('v', x.i))
        return self._op(('v', x.i))

    def _op(self, key):
        if key not in self.opaque:
            self.opaque[key] = sympy.Symbol('o_%s_%s' % key, integer=True)
        return self.opaque[key]

    def ptr_index(self, o, depth=0):
        """(base description, element index expression) of a pixman_fixed_t pointer built from the parameter block"""
        f = self.f
        x = f.v(f.strip_casts(o))
        if x is None or depth > 12:
            return None
        if x.op == 'getelementptr':
            idx = [st for st in x.d['path'] if st[0] in ('p', 'x')]
            if len(idx) != 1:
                return None
            i = self.ev(idx[0][1])
            inner = self.ptr_index(x.a[0], depth + 1)
            if inner is None:
                b = f.v(f.strip_casts(x.a[0])); sb = f.strip_casts(x.a[0])
                if b is not None and b.op == 'load' and f.last_field(f.path(b.a[0])) == 'image_common.filter_params':
                    return ('block', i)
                if b is not None and b.op == 'call':
                    return ('block', i)
                if sb[0] == 'a':
                    return ('block', i)
                return None
            return (inner[0], inner[1] + i if i is not None and inner[1] is not None else None)
        return None


def _eq(a, b):
    return a is not None and b is not None and sympy.simplify(sympy.expand(a - b)) == 0


def find_writer(P):
    f = P.fn('pixman_filter_create_separable_convolution')
    return f


def r1_layout(ck, P):
    R = ck.rule('C18-R1', 'writer, acceptance test and every reader of the separable-convolution block agree on its layout: total = 4 + w*2^bx + h*2^by, x table at 4, y table at 4 + w*2^bx, phase rows of w (h) entries, header = fixed(w,h,bx,by)', floor=13)
    f = find_writer(P); ck.saw(f)
    fw = [c for c in f.calls() if c.callee and P.resolve(f, c.callee) is not None and P.resolve(f, c.callee).internal and c.ty == 'i32']
    if len(fw) < 2:
        raise AnalysisBroken('the two filter width computations were not found in the block writer')
    nb = len(f.params)
    env = {('v', fw[0].i): W, ('v', fw[1].i): H, ('arg', nb - 2): BX, ('arg', nb - 1): BY}
    S = Sym(P, f, env)
    # total
    st = [x for x in f.insts() if x.op == 'store' and f.path(x.a[1]) == (('arg', 0), ())]
    if not st:
        ck.incomplete(R, 'store of the announced length not found')
    for x in st:
        e = S.ev(x.a[0])
        if _eq(e, TOTAL):
            ck.ok(R, 'writer: announced length = 4 + w*2^bx + h*2^by')
        else:
            ck.violation(R, f.name, 'announced length', 'the writer announces %s values; the block layout has %s' % (e, TOTAL), x.loc())
    # allocation
    al = [c for c in f.calls() if c.callee in ('malloc', 'calloc') or (c.callee or '').startswith('pixman_malloc')]
    for c in al:
        ats = set()
        for a in c.a:
            ats |= f.atoms(a)
        if ('argmem', 0) in ats and (('const', 4) in ats or c.callee != 'malloc'):
            ck.ok(R, 'writer: allocation is the announced length times sizeof (pixman_fixed_t)')
        else:
            ck.violation(R, f.name, 'allocation size', 'the block is not allocated as n_values * sizeof (pixman_fixed_t)', c.loc())
    # header
    hdr = {}
    for x in f.insts():
        if x.op == 'store':
            p = f.path(x.a[1])
            if p[0][0] == 'call' and p[0][1] in ('malloc', 'calloc'):
                k = 0
                if p[1]:
                    k = int(p[1][0][1:]) if p[1][0].startswith('+') and p[1][0][1:].lstrip('-').isdigit() else None
                if k is not None and len(p[1]) <= 1:
                    hdr[k] = (S.ev(x.a[0]), x)
    for k, sym in HDR.items():
        if k in hdr and _eq(hdr[k][0], sym * 65536):
            ck.ok(R, 'writer: params[%d] = fixed(%s)' % (k, sym))
        else:
            ck.violation(R, f.name, 'header slot %d' % k, 'params[%d] is written as %s; readers expect the 16.16 value of %s there' % (k, hdr.get(k, (None,))[0], sym), hdr[k][1].loc() if k in hdr else '%s:%d' % (f.unit.name, f.line))
    # table writers
    tw = [c for c in f.calls() if c.callee and P.resolve(f, c.callee) is not None and P.resolve(f, c.callee).internal and c.ty == 'void']
    exp = [(W, 2 ** BX, sympy.Integer(4)), (H, 2 ** BY, 4 + W * 2 ** BX)]
    if len(tw) != 2:
        ck.incomplete(R, 'expected two table-writing calls, found %d' % len(tw))
    for c, (ew, en, eoff) in zip(tw, exp):
        g = P.resolve(f, c.callee)
        ints = [S.ev(a) for a in c.a if f.v(a) is None or f.v(a).ty == 'i32' or a[0] in ('a', 'c')]
        pi = [S.ptr_index(a) for a in c.a if f.v(f.strip_casts(a)) is not None and f.v(f.strip_casts(a)).op == 'getelementptr']
        okw = any(_eq(v, ew) for v in ints); okn = any(_eq(v, en) for v in ints)
        oko = any(p is not None and _eq(p[1], eoff) for p in pi)
        if okw and okn and oko:
            ck.ok(R, 'writer: %s(width=%s, phases=%s) at offset %s' % (c.callee, ew, en, eoff))
        else:
            ck.violation(R, f.name, 'table written at offset %s' % eoff, 'the %s-table is written with width/phases/offset %s / %s; the layout needs width %s, %s phases at offset %s' % ('x' if ew == W else 'y', [str(v) for v in ints], [str(p[1]) if p else None for p in pi], ew, en, eoff), c.loc())
    # bulk copies into the block (a table filled by copying another one): offset and length must be those of a whole table,
    # under the equalities the copy is guarded by
    for c in f.calls():
        if not (c.callee or '').startswith(('llvm.memcpy', 'llvm.memmove')) or len(c.a) < 3:
            continue
        dp = S.ptr_index(c.a[0]) if f.v(f.strip_casts(c.a[0])) is not None and f.v(f.strip_casts(c.a[0])).op == 'getelementptr' else None
        if dp is None:
            continue
        ln = S.ev(c.a[2])
        eqs = {}
        for t, s_ in f.guard_edges(c.bb.id):
            if t.op != 'br' or not t.a:
                continue
            cc, pred, ops = f.cond(t.a[0])
            if cc is None or cc.op != 'icmp' or pred != 'eq' or t.d['succ'][0] != s_:
                continue
            a_, b_ = S.ev(ops[0]), S.ev(ops[1])
            if a_ is not None and b_ is not None and a_.is_Symbol and b_.is_Symbol and {a_, b_} <= {W, H, BX, BY}:
                eqs[b_] = a_
        tables_ = [(sympy.Integer(4), 4 * W * 2 ** BX, 'x'), (4 + W * 2 ** BX, 4 * H * 2 ** BY, 'y')]
        hit = None
        for off, nbytes, nm in tables_:
            if _eq(dp[1], off):
                hit = (nm, nbytes)
        if hit is None or ln is None:
            ck.violation(R, f.name, 'bulk copy into the block', 'the writer copies %s bytes to offset %s of the block, which is not the start of a table' % (ln, dp[1]), c.loc()); continue
        want = hit[1].subs(eqs, simultaneous=True); got = ln.subs(eqs, simultaneous=True)
        if _eq(got, want):
            ck.ok(R, 'writer: %s-table filled by a copy of %s bytes' % (hit[0], hit[1]))
        else:
            ck.violation(R, f.name, 'bulk copy into the %s-table' % hit[0], 'the writer fills the %s-table by copying %s bytes; under the conditions of that branch (%s) the table holds %s bytes: the rest of the table is left unwritten, or the copy runs past the end of the block' % (hit[0], got, ', '.join('%s == %s' % kv for kv in eqs.items()) or 'none relating the subsample bits', want), c.loc())
    # acceptance test
    sf = P.fn('pixman_image_set_filter'); ck.saw(sf)
    S2 = Sym(P, sf)
    acc = False
    SEPK = P.enum_const('PIXMAN_FILTER_SEPARABLE_CONVOLUTION')
    def other_kind(x):
        """is the comparison on a path taken only for a different filter kind (filter == K, K != SEPARABLE)?"""
        for t, s_ in sf.guard_edges(x.bb.id):
            if not t.a:
                continue
            if t.op == 'switch':
                if sf.strip_casts(t.a[0])[0] == 'a' and t.d.get('default') != s_:
                    cvs = [int(cv) for cv, bb in t.d.get('cases', []) if bb == s_]
                    if cvs and SEPK not in cvs:
                        return True
                continue
            c, p, ops = sf.cond(t.a[0])
            if c is None or c.op != 'icmp' or p not in ('eq', 'ne'):
                continue
            ks = [int(o[1]) for o in ops if o[0] == 'c']
            if not ks or not any(o[0] == 'a' for o in ops):
                continue
            if (p == 'eq') == (t.d['succ'][0] == s_) and ks[0] != SEPK:
                return True
        return False
    for x in sf.insts():
        if x.op == 'icmp' and x.pred in ('eq', 'ne'):
            if other_kind(x):
                continue
            for i in (0, 1):
                if sf.strip_casts(x.a[i])[0] == 'a' and sf.params[sf.strip_casts(x.a[i])[1]][1] == 'i32':
                    e = S2.ev(x.a[1 - i])
                    if e is not None and e.free_symbols & {W, H}:
                        acc = True
                        if _eq(e, TOTAL):
                            ck.ok(R, 'set_filter accepts exactly n_params = 4 + w*2^bx + h*2^by')
                        else:
                            ck.violation(R, sf.name, 'length test', 'pixman_image_set_filter requires n_params == %s; the writer produces %s: valid blocks are refused or short blocks accepted' % (e, TOTAL), x.loc())
    if not acc:
        ck.violation(R, sf.name, 'length test', 'pixman_image_set_filter no longer checks the announced length against the header', '%s:%d' % (sf.unit.name, sf.line))
    # readers
    n_readers = 0
    for g in P.functions():
        if g is f or g is sf:
            continue
        if not any(x.op == 'load' and g.last_field(g.path(x.a[0])) == 'image_common.filter_params' for x in g.insts()):
            continue
        Sg = Sym(P, g)
        seen_y = seen_x = False
        for x in g.insts():
            if x.op != 'getelementptr':
                continue
            pi = Sg.ptr_index(['v', x.i])
            if pi is None or pi[1] is None:
                continue
            e = sympy.expand(pi[1])
            if not (e.free_symbols & {W, H, BX, BY}):
                continue
            ops_ = [s_ for s_ in e.free_symbols if str(s_).startswith('o_')]
            const_part = e.subs({s_: 0 for s_ in ops_})
            if const_part.has(BX):
                n_readers += 1; ck.saw(g); seen_y = True
                coeff = [sympy.expand(e).coeff(s_) for s_ in ops_]
                if _eq(const_part, 4 + W * 2 ** BX) and all(_eq(c_, H) for c_ in coeff if c_ != 0):
                    ck.ok(R, '%s: y table at 4 + w*2^bx, phase rows of h' % g.name)
                else:
                    ck.violation(R, g.name, 'y-table address', '%s reads the y coefficients at %s; the writer put them at 4 + w*2^bx with rows of h entries' % (g.name, e), x.loc())
            elif ops_ and _eq(const_part, 4):
                n_readers += 1; ck.saw(g); seen_x = True
                coeff = [sympy.expand(e).coeff(s_) for s_ in ops_]
                if all(_eq(c_, W) for c_ in coeff if c_ != 0):
                    ck.ok(R, '%s: x table at 4, phase rows of w' % g.name)
                else:
                    ck.violation(R, g.name, 'x-table address', '%s reads the x coefficients with a row length of %s instead of w' % (g.name, coeff), x.loc())
    if n_readers < 4:
        ck.incomplete(R, 'only %d reader address computations recognised' % n_readers)


def r2_write_accounting(ck, P):
    R = ck.rule('C18-R2', 'the per-axis table writer advances its output pointer by exactly `width` per phase (two unit-stride passes of width entries and one rewind by width) for n_phases phases', floor=6)
    f = find_writer(P)
    tw = [P.resolve(f, c.callee) for c in f.calls() if c.callee and P.resolve(f, c.callee) is not None and P.resolve(f, c.callee).internal and c.ty == 'void']
    if not tw:
        raise AnalysisBroken('table writer not found')
    g = tw[0]; ck.saw(g)
    from .. import build, facts as _facts
    import json
    path = build.library_facts(loops=True, only={g.unit.name})[g.unit.name]
    L = None
    for fd in json.load(open(path))['functions']:
        if fd['name'] == g.name:
            L = fd['loops']
    if not L:
        ck.incomplete(R, 'no loop information for %s' % g.name); return
    outer = [l for l in L if l['depth'] == 1]
    inner = [l for l in L if l['depth'] == 2]
    ip = [i for i, (n, t) in enumerate(g.params) if t == 'i32']
    pp = [i for i, (n, t) in enumerate(g.params) if t == 'i32*']
    if len(outer) != 1 or len(inner) != 2 or not pp:
        ck.violation(R, g.name, 'loop structure', 'the table writer no longer has one phase loop with two passes over the taps (found %d outer, %d inner loops)' % (len(outer), len(inner)), '%s:%d' % (g.unit.name, g.line)); return
    # widths: counter from x1 to x2 = x1 + width
    width_arg = None
    for l in inner:
        ptr = [ph for ph in l['phis'] if ph['ty'] == 'i32*']
        cnt = [ph for ph in l['phis'] if ph['ty'] == 'i32' and ph['step'] == 1]
        if ptr and ptr[0]['step'] == 4:
            ck.ok(R, 'pass at block %d: pointer advances one entry per tap' % l['header'])
        else:
            ck.violation(R, g.name, 'pointer stride of pass at block %d' % l['header'], 'the output pointer advances %s bytes per tap instead of one pixman_fixed_t' % (ptr[0]['step'] if ptr else None), '%s:%d' % (g.unit.name, g.line))
        # exit comparison: counter < x2, with x2 - start == width parameter
        okc = False
        for e in l['exits']:
            c = g.v(e['cond']) if e.get('cond') else None
            if c is not None and c.op == 'icmp' and c.pred in ('slt', 'ne'):
                for ph in cnt:
                    if g.strip_casts(c.a[0]) == ['v', ph['v']]:
                        ph_inst = g.by_id[ph['v']]
                        start = [a for a, bb in zip(ph_inst.a, ph_inst.d['bb']) if bb not in l['blocks']]
                        la = linear(g, c.a[1]); ls = linear(g, start[0]) if start else None
                        if la is not None and ls is not None:
                            d = dict(la)
                            for t, cf in ls.items():
                                d[t] = d.get(t, 0) - cf
                            d = {t: cf for t, cf in d.items() if cf}
                            if len(d) == 1 and list(d.values()) == [1] and list(d)[0][0] == 'arg':
                                okc = True; width_arg = list(d)[0][1]
        if okc:
            ck.ok(R, 'pass at block %d: exactly `width` taps' % l['header'])
        else:
            ck.violation(R, g.name, 'trip count of pass at block %d' % l['header'], 'a pass over the taps does not run for exactly `width` iterations', '%s:%d' % (g.unit.name, g.line))
    # rewind between the passes: second pass pointer starts at (end of first) - width
    second = max(inner, key=lambda l: l['header'])
    ptr = [ph for ph in second['phis'] if ph['ty'] == 'i32*']
    ok = False
    if ptr:
        ph_inst = g.by_id[ptr[0]['v']]
        start = [a for a, bb in zip(ph_inst.a, ph_inst.d['bb']) if bb not in second['blocks']]
        x = g.v(start[0]) if start else None
        if x is not None and x.op == 'getelementptr':
            idx = [st for st in x.d['path'] if st[0] in ('p', 'x')]
            la = linear(g, idx[0][1]) if idx else None
            if la is not None and width_arg is not None and la == {('arg', width_arg): -1}:
                ok = True
    if ok:
        ck.ok(R, 'rewind by exactly -width between the passes')
    else:
        ck.violation(R, g.name, 'rewind between passes', 'the normalising pass does not start `width` entries before the end of the sampling pass: it normalises the wrong taps or runs past the phase', '%s:%d' % (g.unit.name, g.line))
    # stores outside the two passes (the fallback for a weightless phase, the final correction): they address the current phase, i.e.
    # they go through the rewound pointer, or through the pointer the second pass leaves behind minus width
    inner_blocks = set()
    for l in inner:
        inner_blocks |= set(l['blocks'])
    rewind = x if ok else None
    second_ptr = ptr[0]['v'] if ptr else None
    first = min(inner, key=lambda l: l['header'])
    first_ptr = [ph['v'] for ph in first['phis'] if ph['ty'] == 'i32*']
    for st in g.insts():
        if st.op != 'store' or st.bb.id in inner_blocks or st.bb.id not in set(outer[0]['blocks']):
            continue
        y = g.v(st.a[1])
        if y is None or y.op != 'getelementptr' or y.ty != 'i32*':
            continue
        b = g.v(y.a[0])
        idx = [q for q in y.d['path'] if q[0] in ('p', 'x')]
        la = linear(g, idx[0][1]) if idx else None
        where = 'store outside the passes at %s' % st.loc()
        if rewind is not None and b is not None and b.i == rewind.i:
            ck.ok(R, where, 'through the rewound pointer')
        elif b is not None and second_ptr is not None and b.i == second_ptr and width_arg is not None and la == {('arg', width_arg): -1}:
            ck.ok(R, where, 'end of the normalising pass minus width')
        elif b is not None and (b.i in first_ptr or (second_ptr is not None and b.i == second_ptr)):
            ck.violation(R, g.name, 'store outside the passes at %s' % st.loc(), 'between / after the two passes the writer stores through the pointer a pass has left behind (one phase further on) without rewinding it by width: the entry lands in the next phase, and for the last phase of the table behind the end of the block' , st.loc())

    # outer loop: counter 0.. n_phases
    o = outer[0]
    cnt = [ph for ph in o['phis'] if ph['ty'] == 'i32' and ph['step'] == 1 and ph['start'] == '0']
    okp = False
    for e in o['exits']:
        c = g.v(e['cond']) if e.get('cond') else None
        if c is not None and c.op == 'icmp' and c.pred == 'slt' and cnt and g.strip_casts(c.a[0]) == ['v', cnt[0]['v']] and g.strip_casts(c.a[1])[0] == 'a':
            okp = True
    if okp:
        ck.ok(R, 'phase loop runs n_phases times')
    else:
        ck.violation(R, g.name, 'phase loop bound', 'the phase loop does not run from 0 to n_phases', '%s:%d' % (g.unit.name, g.line))
    # residual: a store to (p - width) after the second pass, inside the phase loop
    RR = ck.rule('C18-R3', 'each phase ends by adding the residual (1.0 - sum of the normalised taps) to a tap of that phase', floor=1)
    res = None
    for x in g.insts():
        if x.op == 'store' and x.bb.id in o['blocks'] and x.bb.id not in inner[0]['blocks'] and x.bb.id not in inner[1]['blocks']:
            y = g.v(g.strip_casts(x.a[1]))
            if y is not None and y.op == 'getelementptr':
                idx = [st for st in y.d['path'] if st[0] in ('p', 'x')]
                la = linear(g, idx[0][1]) if idx else None
                if la is not None and width_arg is not None and la == {('arg', width_arg): -1}:
                    ats = g.atoms(x.a[0])
                    if ('const', 65536) in ats:
                        res = x
    if res is not None:
        ck.ok(RR, 'residual 65536 - new_total added at p - width')
    else:
        ck.violation(RR, g.name, 'residual store', 'no tap of the phase receives pixman_fixed_1 minus the accumulated total: the coefficients of a phase need not sum to 1.0', '%s:%d' % (g.unit.name, g.line))


def r4_kernel_table(ck, P):
    R = ck.rule('C18-R4', 'filters[] has one row per pixman_kernel_t enumerator, in enumerator order, each with a function', floor=8)
    u, g = P.global_('filters', 'pixman-filter.c')
    t = P.table(u, g)
    en = P.enum('pixman_kernel_t')
    for name, v in sorted(en.items(), key=lambda kv: kv[1]):
        if v < len(t) and t[v]['kernel'] == v and isinstance(t[v]['func'], dict):
            ck.ok(R, 'filters[%d] is %s' % (v, name))
        else:
            ck.violation(R, 'filters', 'row %d' % v, 'filters[] is indexed by the kernel enum but row %d %s' % (v, 'is missing' if v >= len(t) else 'describes kernel %s / function %s' % (t[v]['kernel'], t[v]['func'])), u.name)


def r_axis_consistency(ck, P, rid):
    """the x phase/width header fields are only ever combined with each other, likewise the y fields"""
    R = ck.rule(rid, 'in every reader of the separable-convolution block, products and shifts never combine a value derived from the x header fields (width, x phase bits) with one derived from the y header fields (height, y phase bits), and a sample coordinate is offset only by values derived from the header fields of its own axis: the y kernel row is selected by the y phase and centred with the height, the x kernel row by the x phase and the width', floor=6)
    AX = {0: 'x', 2: 'x', 1: 'y', 3: 'y'}
    NAME = {0: 'width', 1: 'height', 2: 'x_phase_bits', 3: 'y_phase_bits'}
    n = 0
    for f in P.functions():
        sy = Sym(P, f)
        hdr = {}
        for x in f.insts():
            if x.op == 'load':
                k = sy.header_index(x.a[0])
                if k is not None and k in AX:
                    hdr[x.i] = k
        if not any(k in (2, 3) for k in hdr.values()):
            continue
        memo = {}

        def H(o, depth=0):
            if o[0] != 'v':
                return frozenset()
            if o[1] in memo:
                return memo[o[1]]
            memo[o[1]] = frozenset()          # cycle cut (phi)
            x = f.by_id[o[1]]
            if x.op == 'load':
                r = frozenset([hdr[x.i]]) if x.i in hdr else frozenset()
            elif x.op in ('call', 'alloca', 'getelementptr'):
                r = frozenset()
            else:
                r = frozenset()
                for a in x.a:
                    r |= H(a, depth + 1)
            memo[o[1]] = r
            return r

        ck.saw(f)
        # sample coordinates: values derived from vector[0] / matrix[0][*] (x) or vector[1] / matrix[1][*] (y), or from parameters x / y
        cmemo = {}

        def Cx(o):
            if o[0] == 'a':
                nm = f.params[o[1]][0]
                return frozenset([nm]) if nm in ('x', 'y') else frozenset()
            if o[0] != 'v':
                return frozenset()
            if o[1] in cmemo:
                return cmemo[o[1]]
            cmemo[o[1]] = frozenset()
            x = f.by_id[o[1]]
            if x.op == 'load':
                st = [str(q) for q in f.path(x.a[0])[1]]
                r = frozenset()
                for fld in ('pixman_vector.vector', 'pixman_transform.matrix'):
                    if fld in st:
                        k = st.index(fld)
                        if k + 1 < len(st) and st[k + 1] in ('[0]', '[1]'):
                            r = frozenset(['x' if st[k + 1] == '[0]' else 'y'])
            elif x.op in ('call', 'alloca', 'getelementptr'):
                r = frozenset()
            else:
                r = frozenset()
                for a in x.a:
                    r |= Cx(a)
            cmemo[o[1]] = r
            return r
        for x in f.insts():
            if x.op not in ('add', 'sub'):
                continue
            for a, b in ((x.a[0], x.a[1]), (x.a[1], x.a[0])):
                ca, hb = Cx(a), H(b)
                if len(ca) != 1 or not hb or Cx(b):
                    continue
                n += 1
                hax = {AX[k] for k in hb}
                what = '%s of the %s coordinate and [%s]' % (x.op, list(ca)[0], ','.join(NAME[k] for k in sorted(hb)))
                if hax == set(ca):
                    ck.ok(R, '%s: %s' % (f.name, what))
                else:
                    ck.violation(R, f.name, what, '%s offsets the %s sample coordinate by a value derived from the %s-axis header field(s) %s (%s): the kernel window of one axis is centred with the size of the other, so a non-square kernel is applied %s rows / columns off and the readers disagree' % (f.name, list(ca)[0], '/'.join(sorted(hax)), ','.join(NAME[k] for k in sorted(hb)), x.op, 'half the size difference in'), x.loc())
        is_setter = any(y.op == 'store' and f.last_field(f.path(y.a[1])) == 'image_common.filter_params' for y in f.insts())
        SEPK_ = P.enum_const('PIXMAN_FILTER_SEPARABLE_CONVOLUTION')
        def separable_path(bid):
            """in the setter the header layout depends on the filter kind: only blocks reached under filter == SEPARABLE count"""
            for t, s_ in f.guard_edges(bid):
                if not t.a:
                    continue
                if t.op == 'switch':
                    if f.strip_casts(t.a[0])[0] == 'a' and any(int(cv) == SEPK_ and bb == s_ for cv, bb in t.d.get('cases', [])) and t.d.get('default') != s_:
                        return True
                    continue
                c, p, ops = f.cond(t.a[0])
                if c is not None and c.op == 'icmp' and p in ('eq', 'ne') and any(f.strip_casts(o)[0] == 'a' for o in ops) and any(o[0] == 'c' and int(o[1]) == SEPK_ for o in ops):
                    if (p == 'eq') == (t.d['succ'][0] == s_):
                        return True
            return False
        for x in f.insts():
            if x.op not in ('mul', 'shl', 'lshr', 'ashr', 'icmp'):
                continue
            if is_setter and not separable_path(x.bb.id):
                continue
            h1, h2 = H(x.a[0]), H(x.a[1])
            if not h1 or not h2:
                continue
            if x.op == 'icmp' and (len({AX[k] for k in h1}) != 1 or len({AX[k] for k in h2}) != 1):
                continue            # a total over both axes (the length test) is not an axis comparison
            n += 1
            axes = {AX[k] for k in h1 | h2}
            what = '%s of [%s] and [%s]' % (x.op, ','.join(NAME[k] for k in sorted(h1)), ','.join(NAME[k] for k in sorted(h2)))
            if len(axes) == 1:
                ck.ok(R, '%s: %s' % (f.name, what))
            else:
                ck.violation(R, f.name, what, '%s combines x-axis and y-axis header fields in one %s (%s): a kernel row or extent of one axis is selected with the phase or size of the other' % (f.name, x.op, what), x.loc())
    if n == 0:
        ck.incomplete(R, 'no product of header-derived values found in any reader of the parameter block')


def r6_acceptance_domain(ck, P):
    """the acceptance test refuses no block the writer can produce (partial evaluation of the acceptor for each header value)"""
    R = ck.rule('C18-R6', 'for every phase-bit count 0..16 and every kernel width/height 1..64 the writer can announce, pixman_image_set_filter (filter = SEPARABLE_CONVOLUTION) still has a path to the point where it installs the block: no test of a header field alone refuses a well-formed block', floor=4)
    f = P.fn('pixman_image_set_filter', required=False)
    if f is None:
        ck.incomplete(R, 'pixman_image_set_filter not found'); return
    ck.saw(f)
    sy = Sym(P, f)
    SEP = P.enum_const('PIXMAN_FILTER_SEPARABLE_CONVOLUTION')
    fp = [i for i, (pn, pt) in enumerate(f.params) if pn == 'filter']
    accept = [x for x in f.insts() if x.op == 'store' and f.last_field(f.path(x.a[1])) == 'image_common.filter_params']
    if not fp or not accept:
        ck.incomplete(R, 'filter parameter or the store that installs filter_params not found'); return
    hdr = {}
    for x in f.insts():
        if x.op == 'load':
            k = sy.header_index(x.a[0])
            if k is not None and k in (0, 1, 2, 3):
                hdr[x.i] = k
    if not {2, 3} <= set(hdr.values()):
        ck.incomplete(R, 'set_filter no longer reads the phase-bit header fields'); return
    M32 = (1 << 32) - 1

    def sgn(v, bits=32):
        v &= (1 << bits) - 1
        return v - (1 << bits) if v >> (bits - 1) else v

    def reach(fixed):
        """is an installing store reachable when header field k has the raw value fixed[k] and filter == SEPARABLE?"""
        seen = set(); work = [(0, None, ())]
        while work:
            b, prev, phis = work.pop()
            if (b, prev, phis) in seen:
                continue
            seen.add((b, prev, phis))
            pv = dict(phis)

            def ev(o, d=0):
                if d > 40:
                    return None
                if o[0] == 'c':
                    return int(o[1])
                if o[0] == 'a':
                    return SEP if o[1] == fp[0] else None
                if o[0] != 'v':
                    return None
                x = f.by_id[o[1]]
                if x.i in pv:
                    return pv[x.i]
                if x.op == 'load':
                    return fixed.get(hdr.get(x.i))
                if x.op in ('zext', 'sext', 'trunc', 'freeze'):
                    return ev(x.a[0], d + 1)
                if x.op == 'call' and isinstance(x.callee, str) and x.callee.startswith('llvm.expect'):
                    return ev(x.a[0], d + 1)
                if x.op in ('add', 'sub', 'mul', 'shl', 'ashr', 'lshr', 'and', 'or', 'xor', 'icmp'):
                    p_, q_ = ev(x.a[0], d + 1), ev(x.a[1], d + 1)
                    if p_ is None or q_ is None:
                        return None
                    if x.op == 'icmp':
                        pr = x.d['p']
                        if pr in ('eq', 'ne'):
                            return int((p_ == q_) == (pr == 'eq'))
                        return int({'slt': p_ < q_, 'sle': p_ <= q_, 'sgt': p_ > q_, 'sge': p_ >= q_, 'ult': p_ < q_, 'ule': p_ <= q_, 'ugt': p_ > q_, 'uge': p_ >= q_}[pr])
                    if x.op == 'shl':
                        return sgn(p_ << q_) if 0 <= q_ < 32 else None
                    if x.op in ('ashr', 'lshr'):
                        return p_ >> q_ if 0 <= q_ < 64 else None
                    r_ = {'add': p_ + q_, 'sub': p_ - q_, 'mul': p_ * q_, 'and': p_ & q_, 'or': p_ | q_, 'xor': p_ ^ q_}[x.op]
                    w_ = int(x.ty[1:]) if x.ty.startswith('i') and x.ty[1:].isdigit() else 32
                    return (r_ & 1) if w_ == 1 else sgn(r_, w_)
                return None

            blk = f.blocks[b]
            for x in blk.insts:
                if x.op == 'phi':
                    for a, bb in zip(x.a, x.d['bb']):
                        if bb == prev:
                            pv[x.i] = ev(a)
                if x in accept:
                    return True
            t = blk.term
            nxt = list(blk.succ)
            if t.op == 'br' and t.a:
                v = ev(t.a[0])
                if v is not None:
                    nxt = [t.d['succ'][0] if v else t.d['succ'][1]]
            elif t.op == 'switch':
                v = ev(t.a[0])
                if v is not None:
                    cs = dict((int(c_), tgt) for c_, tgt in t.d.get('cases', []))
                    nxt = [cs.get(v, t.d.get('default'))]
            keep = tuple(sorted((k, v) for k, v in pv.items() if v is not None))
            for n_ in nxt:
                if n_ is not None:
                    work.append((n_, b, keep))
        return False

    NAME = {0: 'kernel width', 1: 'kernel height', 2: 'x phase bits', 3: 'y phase bits'}
    for k in (2, 3, 0, 1):
        dom = range(0, 17) if k >= 2 else range(1, 65)
        refused = [v for v in dom if not reach({k: v << 16})]
        if refused:
            ck.violation(R, f.name, 'refusal on %s' % NAME[k], 'pixman_image_set_filter cannot install a separable-convolution block whose %s is %s, whatever its length: pixman_filter_create_separable_convolution produces such blocks, so a well-formed block is not accepted' % (NAME[k], ', '.join(str(v) for v in refused[:5]) + (' ...' if len(refused) > 5 else '')), '%s:%d' % (f.unit.name, f.line))
        else:
            ck.ok(R, 'every %s in %d..%d can be installed' % (NAME[k], dom[0], dom[-1]))


def r7_signed_totals(ck, P, rid):
    """T-WID / sibling agreement: every convolution fetcher reduces its per-channel totals as signed quantities"""
    R = ck.rule(rid, 'the per-channel totals of every convolution fetcher (general path accumulate/reduce callbacks and the C fast path alike) are treated as signed: rounded with an arithmetic shift, converted with signed conversions and clipped below with a signed comparison, so that a negative total (kernels with negative lobes) gives 0 in every implementation', floor=4)
    UNSIGNED_OPS = {'lshr': 'a logical shift', 'uitofp': 'an unsigned int-to-float conversion', 'fptoui': 'a float-to-unsigned conversion', 'udiv': 'an unsigned division'}
    cbs = {}
    for f in P.functions():
        for c in f.calls():
            if isinstance(c.callee, str) and 'convolution' in c.callee:
                for o in c.a:
                    if o[0] == 'f':
                        g = P.resolve(f, o[1])
                        if g is not None and len(g.params) >= 5:
                            cbs[g] = c.callee
    if len(cbs) < 4:
        ck.incomplete(R, 'expected the accumulate/reduce callbacks of the general convolution fetchers, found %s' % sorted(g.name for g in cbs))

    def total_values(g):
        """SSA values that hold a total: the first four parameters (reduce) or loads/stores through them (accumulate)"""
        tv = set()
        for x in g.insts():
            for o in x.a:
                if o[0] == 'a' and o[1] < 4:
                    tv.add(('a', o[1]))
        return tv

    for g, via in sorted(cbs.items(), key=lambda kv: kv[0].name):
        ck.saw(g)
        bad = None
        for x in g.insts():
            if x.op in UNSIGNED_OPS:
                # only when the operand derives from a total (parameter 0..3 or memory reached through it)
                roots = set()
                for o in x.a:
                    roots |= {r for r in common.value_arg_roots(g, o) if r[0] == 'arg' and r[1] < 4}
                if x.op == 'fptoui':
                    # the converted value is stored into a total
                    if any(y.op == 'store' and any(r[0] == 'arg' and r[1] < 4 for r in common.roots(g, y.a[1])) for y in g.users(x)):
                        roots.add(('arg', 0))
                if roots:
                    bad = (x, UNSIGNED_OPS[x.op]); break
            if x.op == 'icmp' and x.d.get('p') in ('ult', 'ugt', 'ule', 'uge'):
                roots = set()
                for o in x.a:
                    roots |= {r for r in common.value_arg_roots(g, o) if r[0] == 'arg' and r[1] < 4}
                if roots:
                    bad = (x, 'an unsigned comparison'); break
        if bad:
            ck.violation(R, g.name, 'unsigned treatment of a convolution total', '%s (callback of %s) applies %s to a per-channel total: a negative total wraps and is clipped to the maximum instead of 0, unlike the C fast path' % (g.name, via, bad[1]), bad[0].loc())
        else:
            ck.ok(R, '%s (callback of %s): totals handled as signed' % (g.name, via))
    # the C fast path keeps its totals in locals named s?tot
    for f in P.functions():
        if 'separable_convolution' not in f.name or f.unit.name != 'pixman-fast-path.c':
            continue
        tot = {x.i for x in f.insts() if (x.dv or '') in ('satot', 'srtot', 'sgtot', 'sbtot')}
        if not tot:
            continue
        ck.saw(f)
        bad = None
        for x in f.insts():
            if x.op in UNSIGNED_OPS or (x.op == 'icmp' and x.d.get('p') in ('ult', 'ugt', 'ule', 'uge')):
                def from_tot(o, d=0, seen=None):
                    seen = seen if seen is not None else set()
                    if o[0] != 'v' or o[1] in seen or d > 6:
                        return False
                    seen.add(o[1])
                    if o[1] in tot:
                        return True
                    y = f.by_id[o[1]]
                    return y.op in ('add', 'sub', 'phi', 'sext', 'zext', 'trunc', 'ashr', 'lshr') and any(from_tot(a, d + 1, seen) for a in y.a)
                if any(from_tot(o) for o in x.a):
                    bad = (x, UNSIGNED_OPS.get(x.op, 'an unsigned comparison')); break
        if bad:
            ck.violation(R, f.name, 'unsigned treatment of a convolution total', '%s applies %s to a per-channel total' % (f.name, bad[1]), bad[0].loc())
        else:
            ck.ok(R, '%s: totals handled as signed' % f.name)


def r8_coefficient_product_width(ck, P, rid):
    """T-WID: fx * fy needs 33 bits when both weights approach 1.0"""
    R = ck.rule(rid, 'wherever a reader of the separable-convolution block multiplies an x coefficient by a y coefficient (two 16.16 weights of magnitude up to 1.0), the product is formed in 64 bits: a 32-bit product wraps for narrow filters whose central weights are close to 1.0 on both axes', floor=2)
    n = 0
    for f in P.functions():
        sy = Sym(P, f)
        coef = set()
        for x in f.insts():
            if x.op != 'load' or x.ty not in ('i32',):
                continue
            if sy.header_index(x.a[0]) is not None:
                continue
            rt = f.root(f.path(x.a[0]))
            # address derived from the parameter block: through a pointer phi / GEP chain that starts at filter_params (or a params argument)
            ok = False
            for r in common.roots(f, x.a[0]):
                if r[0] == 'load' or r[0] == 'arg':
                    pass
            ats = f.atoms(x.a[0])
            if ('field', 'image_common.filter_params') in ats or ('via', 'image_common.filter_params') in ats:
                ok = True
            if ok:
                coef.add(x.i)
        if len(coef) < 2:
            continue
        memo = {}

        def C(o, d=0):
            if o[0] != 'v' or d > 25:
                return frozenset()
            if o[1] in memo:
                return memo[o[1]]
            memo[o[1]] = frozenset()
            x = f.by_id[o[1]]
            if x.i in coef:
                r = frozenset([x.i])
            elif x.op in ('sext', 'zext', 'trunc', 'phi', 'freeze'):
                r = frozenset().union(*[C(a, d + 1) for a in x.a]) if x.a else frozenset()
            else:
                r = frozenset()
            memo[o[1]] = r
            return r

        for x in f.insts():
            if x.op != 'mul':
                continue
            c1, c2 = C(x.a[0]), C(x.a[1])
            if not c1 or not c2 or c1 == c2:
                continue
            n += 1; ck.saw(f)
            if x.ty == 'i64':
                ck.ok(R, '%s: coefficient product at %s is 64-bit' % (f.name, x.loc()))
            else:
                ck.violation(R, f.name, 'coefficient product width', '%s multiplies two filter coefficients in %s (%s): with weights near 1.0 on both axes the product exceeds 31 bits and the pixel contribution wraps (a constant image no longer stays constant)' % (f.name, x.ty, x.loc()), x.loc())
    if n == 0:
        ck.incomplete(R, 'no product of two filter coefficients found in any reader')


def r9_degenerate_phases(ck, P):
    """the table writer stays inside the block and keeps phases normalised for kernels of zero support"""
    R = ck.rule('C18-R9', 'the per-axis table writer is never called with an empty phase (the computed filter width is clamped to at least 1, so the row-start correction *(p - width) lands in the row it belongs to), and its normalisation never divides by a total that was not tested against zero: a phase that received no weight is given a unit tap instead', floor=3)
    f = find_writer(P); ck.saw(f)
    tws = {P.resolve(f, c.callee) for c in f.calls() if c.callee and P.resolve(f, c.callee) is not None and P.resolve(f, c.callee).internal and c.ty == 'void'}
    tws = {g for g in tws if g is not None and any(x.op == 'fdiv' for x in g.insts())}
    if len(tws) != 1:
        ck.incomplete(R, 'per-axis table writer not identified (%s)' % sorted(g.name for g in tws)); return
    tw = next(iter(tws)); ck.saw(tw)
    # (a) the width handed to the table writer
    for c in f.calls(tw.name):
        src = f.v(f.strip_casts(c.a[0])) if c.a[0][0] == 'v' else None
        g = P.resolve(f, src.callee) if src is not None and src.op == 'call' and isinstance(src.callee, str) else None
        where = 'width passed to %s at %s' % (tw.name, c.loc())
        if g is None:
            ck.violation(R, f.name, 'width of a phase', 'the width passed to %s is not the result of the width computation the rule knows: it is not shown to be at least 1' % tw.name, c.loc()); continue
        ok = True
        for t in g.rets():
            v = g.v(t.a[0]) if t.a and t.a[0][0] == 'v' else None
            good = False
            if v is not None and v.op == 'select':
                cc = g.v(v.a[0])
                if cc is not None and cc.op == 'icmp' and any(o[0] == 'c' and int(o[1]) == 1 for o in cc.a) and any(o[0] == 'c' and int(o[1]) >= 1 for o in v.a[1:]):
                    good = True
            if v is not None and v.op == 'phi':
                consts = [int(a[1]) for a in v.a if a[0] == 'c']
                others = [(a, bb) for a, bb in zip(v.a, v.d['bb']) if a[0] != 'c']
                if consts and all(k >= 1 for k in consts):
                    good = True
                    for a, bb in others:
                        # the non-constant incoming value must arrive over an edge on which it was tested to be >= 1
                        fine = False
                        for tt, s_ in g.guard_edges(bb) | ({(g.blocks[bb].term, v.bb.id)} if g.blocks[bb].term.a else set()):
                            if not tt.a:
                                continue
                            cc, pred, ops = g.cond(tt.a[0])
                            if cc is None or cc.op != 'icmp' or g.strip_casts(ops[0]) != g.strip_casts(a) or ops[1][0] != 'c':
                                continue
                            k = int(ops[1][1]); taken = tt.d['succ'][0] == s_
                            if (pred == 'slt' and k >= 1 and not taken) or (pred == 'sge' and k >= 1 and taken) or (pred == 'sgt' and k >= 0 and taken) or (pred == 'sle' and k >= 0 and not taken):
                                fine = True
                        good = good and fine
            if t.a and t.a[0][0] == 'c' and int(t.a[0][1]) >= 1:
                good = True
            ok = ok and good
        if ok:
            ck.ok(R, where, '%s returns at least 1' % g.name)
        else:
            ck.violation(R, g.name, 'filter width may be zero', '%s can return 0 (a reconstruction kernel and a sampling kernel of zero support): %s then runs zero-length phases and its row-start correction *(p - width) writes one entry past each phase - past the end of the block for the last one' % (g.name, tw.name), '%s:%d' % (g.unit.name, g.line))
    # (b) the normalising division
    n = 0
    for x in tw.insts():
        if x.op != 'fdiv' or x.a[0][0] != 'fc' or float(x.a[0][1]) != 65536.0:
            continue                    # the normalisation is `65536.0 / total`; 1.0 / n_phases and 1.0 / scale have non-zero divisors by construction
        n += 1
        d = tw.v(x.a[1]) if x.a[1][0] == 'v' else None
        good = False
        if d is not None and d.op == 'phi':
            raw = [a for a in d.a if a[0] == 'v']
            cst = [(a, bb) for a, bb in zip(d.a, d.d['bb']) if a[0] == 'fc']
            if raw and cst and all(float(a[1]) != 0.0 for a, bb in cst):
                for a, bb in cst:
                    for tt, s_ in tw.guard_edges(bb) | ({(tw.blocks[bb].term, d.bb.id)} if tw.blocks[bb].term.a else set()):
                        cc = tw.v(tt.a[0]) if tt.a else None
                        if cc is not None and cc.op == 'fcmp' and any(o[0] == 'fc' and float(o[1]) == 0.0 for o in cc.a) and any(o in raw for o in cc.a):
                            zero_side_true = cc.d['p'] in ('oeq', 'ueq')
                            if (tt.d['succ'][0] == s_) == zero_side_true:
                                good = True
        if good:
            ck.ok(R, '%s: normalising division at %s is preceded by a zero test of the total' % (tw.name, x.loc()))
        else:
            ck.violation(R, tw.name, 'normalisation divides by an untested total', '%s divides %s by the sum of a phase without testing that the sum is non-zero: a phase in which an impulse kernel missed every sample position is filled with NaN-derived values and does not sum to 65536' % (tw.name, x.a[0][1]), x.loc())
    if n == 0:
        ck.incomplete(R, 'no normalising division found in %s' % tw.name)


def r10_touching_supports(ck, P):
    """T-GRD: the kernel table contains a kernel of width 0 (IMPULSE); its support touches another kernel's support in a single point, so
    every floating-point guard on the way to integral() has to hold with equality."""
    R = ck.rule('C18-R10', 'filters[] contains a kernel whose support has width 0, so in create_1d_filter every floating-point comparison that guards the call of integral() is non-strict (holds when the two supports touch in a single point): a strict test gives every tap of an IMPULSE axis the weight 0', floor=2)
    u, g = P.global_('filters', 'pixman-filter.c')
    t = P.table(u, g)
    zero = [r for r in t if isinstance(r.get('width'), dict) and float(r['width'].get('fp', 1)) == 0.0] if t and isinstance(t[0], dict) and 'width' in t[0] else None
    if zero is None:
        zero = [r for r in g.get('init', []) if isinstance(r, list) and len(r) == 3 and isinstance(r[2], dict) and float(r[2].get('fp', 1)) == 0.0]
    f = u.functions.get('create_1d_filter')
    if f is None:
        ck.incomplete(R, 'create_1d_filter not found'); return
    ck.saw(f)
    if not zero:
        ck.ok(R, 'filters[] has no kernel of width 0: nothing to require'); ck.ok(R, 'filters[] (no zero-width row)'); return
    calls = list(f.calls('integral'))
    if not calls:
        ck.incomplete(R, 'create_1d_filter does not call integral()'); return
    for c in calls:
        n = 0
        for t_, s in f.guard_edges(c.bb.id):
            cc = f.v(t_.a[0]) if t_.a else None
            if cc is None or cc.op != 'fcmp':
                continue
            n += 1
            pr = cc.d['p'][1:]
            taken = t_.d['succ'][0] == s
            admits_eq = pr in ('ge', 'le', 'eq') if taken else pr in ('gt', 'lt', 'ne')
            where = 'guard at %s on the way to integral() (%s, %s edge)' % (cc.loc(), cc.d['p'], 'true' if taken else 'false')
            if admits_eq:
                ck.ok(R, where)
            else:
                ck.violation(R, f.name, 'guard of integral() at %s' % cc.loc(), 'integral() is only reached when a floating-point comparison holds strictly (%s on the %s edge); filters[] has a kernel of width 0 (row %s) whose support meets the other kernel in exactly one point, so with this guard every tap of such an axis gets weight 0 and the phase no longer sums to one' % (cc.d['p'], 'true' if taken else 'false', zero[0][0] if isinstance(zero[0], list) else zero[0].get('kernel')), cc.loc())
        if n == 0:
            ck.ok(R, 'integral() at %s is called unconditionally' % c.loc())


def r11_final_correction(ck, P):
    """T-ALG: after normalisation the taps of a phase are summed again (new_total) and the first tap receives the residue; the stored
    phase then sums to new_total + (pixman_fixed_1 - new_total) = pixman_fixed_1."""
    from .sampling import _lin
    from .factors import _loops_of
    R = ck.rule('C18-R11', 'in create_1d_filter the residue left by the error diffusion is added to one tap of the phase: that tap becomes old + (pixman_fixed_1 - new_total), where new_total is the accumulated sum of the taps just stored, so that the stored phase sums to exactly pixman_fixed_1', floor=1)
    u = P.units.get('pixman-filter.c')
    f = u.functions.get('create_1d_filter') if u else None
    if f is None:
        ck.incomplete(R, 'create_1d_filter not found'); return
    ck.saw(f)
    loops = _loops_of(u).get(f.name, [])
    inloop = set()
    for lp in loops:
        inloop |= set(lp['blocks'])
    # accumulators: integer header phis whose in-loop update adds a value that the same loop stores through a cursor
    accs = {}
    for lp in loops:
        blocks = set(lp['blocks'])
        stored = set()
        for b in blocks:
            for x in f.blocks[b].insts:
                if x.op == 'store' and x.a[0][0] == 'v' and f.root(f.path(x.a[1]))[0] == 'phi':
                    stored.add(x.a[0][1])
        for p in lp['phis']:
            ph = f.by_id[p['v']]
            if not ph.ty.startswith('i') or ph.ty == 'i1':
                continue
            for a, bb in zip(ph.a, ph.d['bb']):
                y = f.v(a)
                if bb in blocks and y is not None and y.op == 'add' and any(q == ['v', ph.i] for q in y.a) and any(q[0] == 'v' and q[1] in stored for q in y.a):
                    accs[ph.i] = lp
    n = 0
    for x in f.insts():
        if x.op != 'store' or x.a[0][0] != 'v':
            continue
        innermost = [lp for lp in loops if x.bb.id in lp['blocks']]
        v = f.v(x.a[0])
        if v is None or v.op not in ('add', 'sub'):
            continue
        # value = load (same address) +/- something
        ld = None
        for q in v.a:
            y = f.v(q)
            if y is not None and y.op == 'load' and y.a[0] == x.a[1]:
                ld = q
        if ld is None:
            continue
        lin = _lin(f, x.a[0])
        if lin is None:
            continue
        # express through the accumulator
        acc_terms = {k: c for k, c in lin.items() if isinstance(k, tuple) and k[0] == 'v' and k[1] in accs}
        if not acc_terms:
            continue
        n += 1
        rest = {k: c for k, c in lin.items() if k not in acc_terms}
        ldkey = ('v', ld[1])
        want_ok = rest.get(ldkey) == 1 and rest.get(1) is not None and list(acc_terms.values()) == [-1] and set(rest) <= {ldkey, 1}
        one = rest.get(1)
        where = 'correction at %s: tap' % x.loc()
        if want_ok and one == 65536:
            ck.ok(R, where + ' += 65536 - accumulated sum')
        else:
            ck.violation(R, f.name, 'final correction at %s' % x.loc(), 'the tap that absorbs the rounding residue becomes %s (old tap = %s, accumulated sum = %s): the phase then sums to something other than pixman_fixed_1 whenever the residue is non-zero, and a constant image is no longer reproduced' % (' + '.join('%s*%s' % (c, ('old' if k == ldkey else 'sum' if k in acc_terms else k)) for k, c in sorted(lin.items(), key=repr)), 'v%d' % ld[1], ', '.join('v%d' % k[1] for k in acc_terms)), x.loc())
    if n == 0:
        ck.incomplete(R, 'no tap correction by the accumulated sum found in create_1d_filter')


def param_reading_filter_kinds(P):
    """{filter enumerator value: names of the fetchers that walk filter_params for it} - the fetcher is the callee selected by a switch on
    image_common.filter, and it reads filter_params at a computed index or through a cursor"""
    if getattr(P, '_prfk', None) is not None:
        return P._prfk
    readers = set()
    for g in P.functions():
        ps = [x for x in g.insts() if x.op == 'load' and g.last_field(g.path(x.a[0])) == 'image_common.filter_params']
        if not ps:
            continue
        ids = {x.i for x in ps}
        grew = True
        while grew:
            grew = False
            for x in g.insts():
                if x.i in ids:
                    continue
                if x.op in ('getelementptr', 'bitcast', 'phi') and any(a[0] == 'v' and a[1] in ids for a in (x.a if x.op == 'phi' else x.a[:1])):
                    ids.add(x.i); grew = True
        for x in g.insts():
            if x.op == 'getelementptr' and x.a[0][0] == 'v' and x.a[0][1] in ids:
                idx = [st[1] for st in x.d.get('path', []) if st and st[0] in ('p', 'x') and isinstance(st[1], list)]
                if any(i[0] == 'v' for i in idx):
                    readers.add(g)
            if x.op == 'load' and x.a[0][0] == 'v' and x.a[0][1] in ids and g.by_id[x.a[0][1]].op == 'phi':
                readers.add(g)                  # a cursor walked through the block in a loop (*params++)
    kinds = {}
    for h in P.functions():
        for c in h.calls():
            g = P.resolve(h, c.callee) if c.callee else None
            if g not in readers:
                continue
            for t, s in h.guard_edges(c.bb.id):
                if t.op != 'switch':
                    continue
                y = h.v(t.a[0])
                if y is None or y.op != 'load' or h.last_field(h.path(y.a[0])) != 'image_common.filter':
                    continue
                for cv, bb in t.d.get('cases', []):
                    if bb == s:
                        kinds.setdefault(int(cv), set()).add(g.name)
    P._prfk = kinds
    return kinds


def r12_param_block_validated(ck, P, rid='C18-R12'):
    """T-GRD across functions: a filter kind whose fetcher indexes filter_params with a computed index (a convolution kernel read in a loop)
    is accepted by the setter only after the length of the block has been compared with something: the setter copies n_params values into
    its own allocation, and what the fetcher reads beyond them is outside it."""
    R = ck.rule(rid, 'for every filter kind K whose pixel fetcher (the callee selected by the switch on image_common.filter) reads filter_params at a computed index, the function that installs filter_params has a path guarded by filter == K on which n_params takes part in a comparison before the block is installed: without it a block shorter than its header announces is copied into an allocation of n_params values and the fetcher reads past it', floor=2)
    kinds = param_reading_filter_kinds(P)
    if not kinds:
        raise AnalysisBroken('%s: no switch on image_common.filter that selects a reader of filter_params found' % rid)
    setters = [f for f in P.functions() if any(x.op == 'store' and f.last_field(f.path(x.a[1])) == 'image_common.filter_params' and x.a[0][0] != 'n' for x in f.insts()) and f.exported]
    if len(setters) != 1:
        raise AnalysisBroken('%s: expected one exported function installing image_common.filter_params, found %s' % (rid, [f.name for f in setters]))
    f = setters[0]; ck.saw(f)
    npar = None
    for x in f.insts():
        if x.op == 'store' and f.last_field(f.path(x.a[1])) == 'image_common.n_filter_params' and x.a[0][0] == 'a':
            npar = x.a[0][1]
    fpar = None
    for x in f.insts():
        if x.op == 'store' and f.last_field(f.path(x.a[1])) == 'image_common.filter' and x.a[0][0] == 'a':
            fpar = x.a[0][1]
    if npar is None or fpar is None:
        raise AnalysisBroken('%s: %s does not store its filter / n_params parameters' % (rid, f.name))
    inv = {v: k for k, v in P.enum('pixman_filter_t').items()}
    for K, gs in sorted(kinds.items()):
        ok = False
        for x in f.insts():
            if x.op != 'icmp' or ('arg', npar) not in common.value_arg_roots(f, x.a[0]) | common.value_arg_roots(f, x.a[1]):
                continue
            for t, s in f.guard_edges(x.bb.id):
                if not t.a:
                    continue
                if t.op == 'switch':
                    if list(f.strip_casts(t.a[0])) == ['a', fpar] and any(int(cv) == K and bb == s for cv, bb in t.d.get('cases', [])) and t.d.get('default') != s:
                        ok = True
                    continue
                c, p, ops = f.cond(t.a[0])
                if c is None or c.op != 'icmp' or p not in ('eq', 'ne'):
                    continue
                if not any(list(f.strip_casts(o)) == ['a', fpar] for o in ops) or not any(o[0] == 'c' and int(o[1]) == K for o in ops):
                    continue
                if (p == 'eq') == (t.d['succ'][0] == s):
                    ok = True
        where = '%s: filter == %s (read at a computed index by %s)' % (f.name, inv.get(K, K), ', '.join(sorted(gs)))
        if ok:
            ck.ok(R, where, 'n_params compared under that guard')
        else:
            ck.violation(R, f.name, 'parameter block of %s' % inv.get(K, K), '%s installs the parameter block of %s without any comparison that involves n_params on the path guarded by filter == %s, yet %s reads filter_params at an index computed from the header: a block shorter than width * height + header is copied into an allocation of n_params values and read past its end' % (f.name, inv.get(K, K), inv.get(K, K), ', '.join(sorted(gs))), '%s:%d' % (f.unit.name, f.line))


def r13_phase_follows_the_pixel(ck, P, rid='C08-R19'):
    """T-DEP: the kernel row (phase) of each axis is selected from the fractional part of that axis' sample coordinate *of the pixel being
    produced*.  In a scanline reader the coordinate is a loop-carried value; a phase computed from a loop-invariant value (the first
    pixel's coordinate) is right only while the transform does not move that coordinate along the scanline."""
    from .factors import _loops_of
    R = ck.rule(rid, 'in every reader of the separable-convolution block, each phase extraction ((coordinate & 0xffff) >> (16 - phase bits)) takes a coordinate that varies with the pixel: it depends on a phi of a loop header or on a coordinate parameter of a per-pixel function, not only on values computed before the pixel loop - under a rotation or shear the y phase changes along a destination scanline', floor=4)
    n = 0
    for f in P.functions():
        sy = Sym(P, f)
        hdr = {}
        for x in f.insts():
            if x.op == 'load':
                k = sy.header_index(x.a[0])
                if k is not None and k in (2, 3):
                    hdr[x.i] = k
        if not hdr or any(y.op == 'store' and f.last_field(f.path(y.a[1])) == 'image_common.filter_params' for y in f.insts()):
            continue
        if f.name == 'analyze_extent':
            continue
        loops = _loops_of(f.unit).get(f.name, [])
        headers = {l['header'] for l in loops}
        def tagged(o, seen=None):
            seen = set() if seen is None else seen
            y = f.v(o)
            if y is None or y.i in seen:
                return set()
            seen.add(y.i)
            if y.i in hdr:
                return {hdr[y.i]}
            if y.op in ('load', 'call', 'phi'):
                return set()
            out = set()
            for a in y.a:
                if a and a[0] == 'v':
                    out |= tagged(a, seen)
            return out
        def varying(o, seen=None):
            seen = set() if seen is None else seen
            if o[0] == 'a':
                return f.params[o[1]][0] in ('x', 'y')
            y = f.v(o)
            if y is None or y.i in seen:
                return False
            seen.add(y.i)
            if y.op == 'phi':
                if y.bb.id in headers:
                    return True
                return any(varying(a, seen) for a in y.a)
            if y.op in ('load', 'call'):
                return False
            return any(varying(a, seen) for a in y.a if a)
        for x in f.insts():
            if x.op not in ('lshr', 'ashr'):
                continue
            t = tagged(x.a[1])
            if not t or len(t) != 1:
                continue
            # the shifted value: (coordinate & 0xffff)
            y = f.v(x.a[0])
            if y is None or y.op != 'and':
                continue
            n += 1; ck.saw(f)
            axis = 'x' if 2 in t else 'y'
            where = '%s: %s phase at %s' % (f.name, axis, x.loc())
            if varying(x.a[0]):
                ck.ok(R, where, 'from the pixel\'s own coordinate')
            else:
                ck.violation(R, f.name, '%s phase at %s' % (axis, x.loc()), '%s selects the %s kernel row from a coordinate that does not vary with the pixel (it is computed before the pixel loop): the phase of the first pixel of the scanline is used for all of them, which is wrong as soon as the transform moves the %s sample coordinate along the scanline (rotation, shear)' % (f.name, axis, axis), x.loc())
    if n == 0:
        raise AnalysisBroken('%s: no phase extraction found in the readers of the separable-convolution block' % rid)


def r14_header_fields_bounded(ck, P, rid='C18-R13'):
    """T-GRD: the length equation of a kernel block (n_params == header + products of header fields) decides nothing about the sign of
    the individual fields - a negative size on one axis is made up for by the other - and a field used as a shift count must lie in the
    range of the shift.  The setter therefore bounds each header field it converts, on every path that installs the block."""
    from .sampling import spec_succ, facts_at
    R = ck.rule(rid, 'in the function that installs filter_params, on the paths guarded by filter == K for each kind K whose fetcher reads the block at a computed index, every header field (params[k] >> 16) is bounded below by a comparison with a non-negative constant before the block is installed, and a field used as a shift count is bounded above as well: n_params == 4 + nx * width + ny * height alone accepts {-100, 100, 0, 0} with four values, and the fetchers then read their coefficients in front of the block', floor=8)
    kinds = param_reading_filter_kinds(P)
    setters = [f for f in P.functions() if any(x.op == 'store' and f.last_field(f.path(x.a[1])) == 'image_common.filter_params' and x.a[0][0] != 'n' for x in f.insts()) and f.exported]
    if len(setters) != 1 or not kinds:
        raise AnalysisBroken('%s: expected one exported function installing image_common.filter_params and at least one kernel filter kind' % rid)
    f = setters[0]; ck.saw(f)
    inst = [x for x in f.insts() if x.op == 'store' and f.last_field(f.path(x.a[1])) == 'image_common.filter_params' and x.a[0][0] != 'n'][0]
    fpar = ppar = None
    for x in f.insts():
        if x.op == 'store' and f.last_field(f.path(x.a[1])) == 'image_common.filter' and x.a[0][0] == 'a':
            fpar = x.a[0][1]
    for i, (nm, ty) in enumerate(f.params):
        if ty == 'i32*':
            ppar = i
    if fpar is None or ppar is None:
        raise AnalysisBroken('%s: %s has no filter / params parameters' % (rid, f.name))
    inv = {v: k for k, v in P.enum('pixman_filter_t').items()}
    SW = {'slt': 'sgt', 'sgt': 'slt', 'sle': 'sge', 'sge': 'sle', 'eq': 'eq', 'ne': 'ne'}
    n = 0
    for K, gs in sorted(kinds.items()):
        succ = spec_succ(f, {fpar: K})
        seen = set(); work = [0]
        while work:
            b = work.pop()
            if b in seen:
                continue
            seen.add(b); work.extend(succ[b])
        if inst.bb.id not in seen:
            continue
        facts_ = facts_at(f, succ, inst.bb.id) or set()
        # header fields converted under this kind
        fields = []
        for x in f.insts():
            if x.op != 'ashr' or x.bb.id not in seen or not (x.a[1][0] == 'c' and int(x.a[1][1]) == 16):
                continue
            y = f.v(f.strip_casts(x.a[0]))
            if y is None or y.op != 'load':
                continue
            pa = f.path(y.a[0])
            if pa[0] != ('arg', ppar) or any(not (isinstance(st, str) and st.startswith('+')) for st in pa[1]):
                continue
            k = int(pa[1][0][1:]) if pa[1] else 0
            fields.append((k, x))
        for k, V in sorted(fields, key=lambda e: e[0]):
            lo = hi = None
            for cid, truth in facts_:
                c = f.by_id[cid]
                p = c.pred if truth else f.INV.get(c.pred, c.pred)
                a0, a1 = c.a
                if list(f.strip_casts(a1)) == ['v', V.i] and a0[0] == 'c':
                    a0, a1 = a1, a0; p = SW.get(p, p)
                if list(f.strip_casts(a0)) != ['v', V.i] or a1[0] != 'c':
                    continue
                cv = int(a1[1])
                if p == 'sge' and cv >= 0 or p == 'sgt' and cv >= -1:
                    lo = cv
                if p in ('sle', 'slt'):
                    hi = cv
            shift_count = any(u.op in ('shl', 'lshr', 'ashr') and list(f.strip_casts(u.a[1])) == ['v', V.i] for u in f.insts() if u.op in ('shl', 'lshr', 'ashr'))
            n += 1
            where = '%s: filter == %s, header field %d' % (f.name, inv.get(K, K), k)
            if lo is None:
                ck.violation(R, f.name, 'header field %d of %s' % (k, inv.get(K, K)), '%s installs the block of %s without a lower bound on header field %d (params[%d] >> 16, %s): the length equation is satisfied by a negative value on one axis and a larger one on the other, and the fetchers (%s) index the block with it' % (f.name, inv.get(K, K), k, k, V.loc(), ', '.join(sorted(gs))), V.loc())
            else:
                ck.ok(R, where, 'bounded below')
            if shift_count:
                n += 1
                if hi is None:
                    ck.violation(R, f.name, 'shift count from header field %d of %s' % (k, inv.get(K, K)), '%s uses header field %d of %s as a shift count without an upper bound (%s): 1 << bits and the fetchers\' 16 - bits are undefined beyond the width of the type, and a huge phase count with a zero size satisfies the length equation' % (f.name, k, inv.get(K, K), V.loc()), V.loc())
                else:
                    ck.ok(R, where + ' (shift count)', 'bounded above by %d' % hi)
    if n == 0:
        raise AnalysisBroken('%s: no header field converted in %s' % (rid, f.name))


def r15_window_from_the_rounded_position(ck, P, rid='C08-R23'):
    """T-DEP: the readers of a separable-convolution block first round the sample position to the middle of its phase and then derive both
    the phase (which row of weights) and the window (which source pixels) from that rounded value.  A window placed from the unrounded
    position disagrees with the weights exactly where rounding crosses a pixel boundary: the whole kernel sits one pixel off."""
    R = ck.rule(rid, 'in every reader of the separable-convolution block, the first pixel of the kernel window - the integer part of position minus epsilon minus half the kernel size - is computed from a position that has been rounded to its phase (its slice contains a shift left by a count derived from the phase-bits fields of the header): from the unrounded position the window differs from the one the phase weights were built for whenever the position lies on a phase edge that is also a pixel boundary', floor=2)
    n = 0
    for f in P.functions():
        sy = Sym(P, f)
        hdr = {}
        for x in f.insts():
            if x.op == 'load':
                k = sy.header_index(x.a[0])
                if k is not None and k in (0, 1, 2, 3):
                    hdr[x.i] = k
        if not any(k in (2, 3) for k in hdr.values()) or any(y.op == 'store' and f.last_field(f.path(y.a[1])) == 'image_common.filter_params' for y in f.insts()):
            continue
        if f.name == 'analyze_extent':
            continue
        def slice_tags(o, want, seen=None, d=0):
            seen = set() if seen is None else seen
            y = f.v(o) if o and o[0] == 'v' else None
            if y is None or y.i in seen or d > 40:
                return False
            seen.add(y.i)
            if y.i in hdr:
                return hdr[y.i] in want
            if y.op in ('call',):
                return False
            return any(slice_tags(a, want, seen, d + 1) for a in y.a if a)
        def has_rounding(o, seen=None, d=0):
            seen = set() if seen is None else seen
            y = f.v(o) if o and o[0] == 'v' else None
            if y is None or y.i in seen or d > 40:
                return False
            seen.add(y.i)
            if y.op == 'shl' and slice_tags(y.a[1], (2, 3)):
                return True
            if y.op in ('load', 'call'):
                return False
            return any(has_rounding(a, seen, d + 1) for a in y.a if a)
        for x in f.insts():
            if x.op != 'ashr' or not (x.a[1][0] == 'c' and int(x.a[1][1]) == 16):
                continue
            y = f.v(x.a[0])
            # position - e - offset, the offset derived from a size field of the header
            if y is None or y.op != 'sub' or not slice_tags(y.a[1], (0, 1)):
                continue
            n += 1; ck.saw(f)
            where = '%s: window start at %s' % (f.name, x.loc())
            if has_rounding(y.a[0]):
                ck.ok(R, where, 'from the rounded position')
            else:
                ck.violation(R, f.name, 'window start from the unrounded position', '%s places the kernel window (%s) from a position that has not been rounded to its phase, while the weights are selected by the rounded one: for a position exactly on a phase edge that is also a pixel boundary (an exact 2x reduction, scale 1 with an integer translation) the window lies one pixel to the left of the pixels the weights belong to' % (f.name, x.loc()), x.loc())
    if n == 0:
        raise AnalysisBroken('%s: no kernel window computation found in the readers of the separable-convolution block' % rid)
