"""Pixel codec rules (C10, C03-R4, C19-R3, C08-R2): bit-provenance obligations over -O2 IR of generated shim wrappers."""
import os, hashlib, re
from collections import defaultdict
from ..build import AnalysisBroken
from .. import build, facts, bitprov, consts
from . import tables, common

CANON = dict(a=24, r=16, g=8, b=0)
TYPE_A, TYPE_ARGB, TYPE_ABGR, TYPE_BGRA, TYPE_RGBA = 1, 2, 3, 8, 9


def layout(code):
    """(bpp, widths, positions) from the format code alone (DESIGN Appendix B.2) — get_shifts is not consulted"""
    fi = tables.fmt_info(code)
    bpp = fi['bpp']; a, r, g, b = fi['a'], fi['r'], fi['g'], fi['b']; t = fi['type']
    if t == TYPE_A:
        pos = dict(a=0, r=0, g=0, b=0)
    elif t == TYPE_ARGB:
        pos = dict(b=0, g=b, r=b + g, a=b + g + r)
    elif t == TYPE_ABGR:
        pos = dict(r=0, g=r, b=r + g, a=r + g + b)
    elif t == TYPE_BGRA:
        pos = dict(b=bpp - b); pos['g'] = pos['b'] - g; pos['r'] = pos['g'] - r; pos['a'] = pos['r'] - a
    elif t == TYPE_RGBA:
        pos = dict(r=bpp - r); pos['g'] = pos['r'] - g; pos['b'] = pos['g'] - b; pos['a'] = pos['b'] - a
    else:
        return None
    return bpp, dict(a=a, r=r, g=g, b=b), pos


def membit(o, j, bpp, be):
    """index (in the little-endian word-array memory model) of bit j of the pixel at offset o"""
    if not be or bpp in (8, 16, 32):
        return o * bpp + j
    if bpp == 1:
        return (o >> 5) * 32 + (31 - (o & 31))
    if bpp == 4:
        byte = (4 * o) >> 3
        return byte * 8 + (j if (o & 1) else 4 + j)
    if bpp == 24:
        byte = 3 * o + (2 - j // 8)
        return byte * 8 + j % 8
    raise AnalysisBroken('no big-endian memory model for %d bpp' % bpp)


def accessor_table(P, unit='pixman-access.c'):
    u, g = P.global_('accessors', unit)
    t = P.table(u, g)
    if not t:
        raise AnalysisBroken('accessors[] table not decodable in ' + unit)
    return u, g, t


def codec_rows(P):
    """rows of accessors[] whose scanline fetcher is the generic fetch-and-convert instantiation, with a direct-colour/alpha type"""
    u, g, t = accessor_table(P)
    out = []
    for e in t:
        fn = tables.fname(e['fetch_scanline_32'])
        f = u.functions.get(fn) if fn else None
        if f is None:
            continue
        if not any(True for c in f.calls()):
            continue
        lay = layout(e['format'])
        if lay is None or lay[0] > 32 or max(lay[1].values()) > 8:
            continue
        out.append(e)
    return u, out


def _gen(path_key, text):
    d = os.path.join(build.cache_dir(), 'gen'); os.makedirs(d, exist_ok=True)
    p = os.path.join(d, '%s_%s.c' % (path_key, hashlib.sha1(text.encode()).hexdigest()[:10]))
    if not os.path.exists(p):
        tmp = p + '.tmp%d' % os.getpid()
        with open(tmp, 'w') as f:
            f.write(text)
        os.replace(tmp, p)
    return p


def offsets_for(bpp, tier):
    n = 96 // bpp
    allo = list(range(n))
    if tier == 'thorough' or n <= 6:
        return allo
    return sorted({0, 1, 2, n // 2 - 1, n // 2, n - 2, n - 1})


def r1_codec(ck, P, tier='quick', be=False):
    """C10-R1 + C10-R2 + C03-R4: fetch/store of every narrow direct format at every addressed position is the specified bit map"""
    sfx = 'be' if be else ''
    RF = ck.rule('C10-R1' + sfx, 'fetch_and_convert_pixel(F, offset) returns, for all 2^96 memory contents, the bit-replicated a8r8g8b8 of exactly the addressed pixel (absent alpha = 1, absent colour = 0)' + (' [WORDS_BIGENDIAN]' if be else ''), floor=150 if not be else 100)
    RS = ck.rule('C10-R2' + sfx, 'convert_and_store_pixel(F, offset, v) writes the most significant bits of each channel into exactly the addressed pixel and leaves every other memory bit unchanged' + (' [WORDS_BIGENDIAN]' if be else ''), floor=150 if not be else 100)
    u, rows = codec_rows(P)
    if len(rows) < 30:
        raise AnalysisBroken('only %d generic narrow formats found in accessors[]' % len(rows))
    names = tables.format_names(P)
    src = ['#include <config.h>', '#include "pixman-access.c"', 'typedef unsigned __int128 u128;']
    jobs = []
    for e in rows:
        code = e['format']; bpp, wid, pos = layout(code)
        for o in offsets_for(bpp, tier):
            tag = '%x_%d' % (code, o)
            src.append('uint32_t px_f_%s (uint32_t w0, uint32_t w1, uint32_t w2) { uint32_t mem[3] = { w0, w1, w2 }; return fetch_and_convert_pixel (0, (const uint8_t *)mem, %d, (pixman_format_code_t)0x%x); }' % (tag, o, code))
            src.append('u128 px_s_%s (uint32_t w0, uint32_t w1, uint32_t w2, uint32_t v) { uint32_t mem[3] = { w0, w1, w2 }; convert_and_store_pixel (0, (uint8_t *)mem, %d, (pixman_format_code_t)0x%x, v); return (u128)mem[0] | (u128)mem[1] << 32 | (u128)mem[2] << 64; }' % (tag, o, code))
            jobs.append((code, o, tag))
    shim = _gen('codec' + sfx, '\n'.join(src) + '\n')
    S = facts.load_shim(shim, mode='O', flags=['-DHAVE_CONFIG_H'] + (['-DWORDS_BIGENDIAN'] if be else []))
    SU = list(S.units.values())[0]
    nob = ndis = 0
    for code, o, tag in jobs:
        bpp, wid, pos = layout(code)
        nm = names.get(code, hex(code))
        # ---- fetch
        f = SU.functions.get('px_f_' + tag)
        if f is None:
            raise AnalysisBroken('wrapper px_f_%s missing from the shim IR' % tag)
        got, it = bitprov.provenance(f)
        exp = [None] * 32
        for c in 'argb':
            n = wid[c]
            for i in range(8):
                if n:
                    m = membit(o, pos[c] + n - 1 - ((7 - i) % n), bpp, be)
                    exp[CANON[c] + i] = ('in', m // 32, m % 32)
                else:
                    exp[CANON[c] + i] = 1 if c == 'a' else 0
        nob += 1
        _judge(ck, RF, 'fetch %s @%d' % (nm, o), got, exp, 'fetch_and_convert_pixel', nm)
        # ---- store
        f = SU.functions.get('px_s_' + tag)
        got, it = bitprov.provenance(f)
        exp = [('in', m // 32, m % 32) for m in range(96)] + [0] * 32
        for j in range(bpp):
            m = membit(o, j, bpp, be)
            v = '*'         # padding bits of the pixel are not defined bits of the format
            for c in 'argb':
                n = wid[c]
                if n and pos[c] <= j < pos[c] + n:
                    v = ('in', 3, CANON[c] + 8 - n + (j - pos[c]))
            exp[m] = v
        nob += 1
        _judge(ck, RS, 'store %s @%d' % (nm, o), got, exp, 'convert_and_store_pixel', nm)
    return nob


def _judge(ck, R, what, got, exp, fn, nm):
    if got is None:
        ck.incomplete(R, '%s: no return value computed' % what); return
    if len(got) != len(exp):
        ck.incomplete(R, '%s: result width %d, expected %d' % (what, len(got), len(exp))); return
    diff = [(i, got[i], exp[i]) for i in range(len(exp)) if got[i] != exp[i] and exp[i] != '*']
    if not diff:
        ck.ok(R, what, 'all %d result bits have the specified provenance' % len(exp)); return
    if all(g == bitprov.TOP for _, g, _ in diff):
        ck.incomplete(R, '%s: %d result bits could not be traced (first: bit %d)' % (what, len(diff), diff[0][0])); return
    i, g, e = [d for d in diff if d[1] != bitprov.TOP][0]
    ck.violation(R, fn, what, '%s: result bit %d comes from %s but the format definition requires %s (%d bits differ)' % (what, i, _b(g), _b(e), len(diff)), 'pixman-access.c')


def _b(b):
    if b in (0, 1):
        return 'constant %d' % b
    if b == bitprov.TOP:
        return 'unknown'
    if b[0] == 'in':
        return ('value bit %d' % b[2]) if b[1] == 3 else 'memory bit %d' % (b[1] * 32 + b[2])
    if b[0] in ('or', 'and', 'xor'):
        return b[0].upper() + ' of {' + ', '.join(sorted(_b(q) for q in b[1])) + '}'
    return 'inverted ' + _b(('in',) + tuple(b[1:]))


# ------------------------------------------------------------------------------ C10-R3/R4/R5/R6
def eval_const(P, f, args, depth=0):
    """evaluate an integer-only function on constant arguments by walking its IR (no memory): returns int or None"""
    if depth > 4:
        return None
    env = {}
    def val(o):
        if o[0] == 'c':
            return int(o[1])
        if o[0] == 'a':
            return args[o[1]] if o[1] < len(args) else None
        if o[0] == 'v':
            return env.get(o[1])
        return None
    b = 0; prev = None; steps = 0
    while steps < 2000:
        steps += 1
        blk = f.blocks[b]
        for x in blk.insts:
            if x.op == 'phi':
                for a, bb in zip(x.a, x.d['bb']):
                    if bb == prev:
                        env[x.i] = val(a)
            elif x.op == 'icmp':
                l, r = val(x.a[0]), val(x.a[1])
                if l is None or r is None:
                    env[x.i] = None
                else:
                    env[x.i] = int({'eq': l == r, 'ne': l != r, 'slt': l < r, 'sgt': l > r, 'sle': l <= r, 'sge': l >= r, 'ult': l < r, 'ugt': l > r, 'ule': l <= r, 'uge': l >= r}[x.pred])
            elif x.op in ('zext', 'sext', 'trunc', 'freeze'):
                env[x.i] = val(x.a[0])
            elif x.op in ('and', 'or', 'xor', 'add', 'sub', 'shl', 'lshr'):
                l, r = val(x.a[0]), val(x.a[1])
                env[x.i] = None if l is None or r is None else {'and': l & r, 'or': l | r, 'xor': l ^ r, 'add': l + r, 'sub': l - r, 'shl': l << r, 'lshr': (l & 0xffffffff) >> r}[x.op]
            elif x.op == 'call':
                g = P.resolve(f, x.callee)
                env[x.i] = eval_const(P, g, [val(a) for a in x.a], depth + 1) if g is not None else None
            elif x.op == 'ret':
                return val(x.a[0]) if x.a else None
            elif x.op == 'br':
                prev = b
                if x.a:
                    c = val(x.a[0])
                    if c is None:
                        return None
                    b = x.d['succ'][0] if c else x.d['succ'][1]
                else:
                    b = x.d['succ'][0]
                break
            elif x.op == 'switch':
                prev = b
                v = val(x.a[0])
                if v is None:
                    return None
                nb = x.d['default']
                for cv, bb in x.d['cases']:
                    if (cv & 0xffffffff) == (v & 0xffffffff):
                        nb = bb
                b = nb
                break
            elif x.op == 'unreachable':
                return None
        else:
            return None
    return None


def is_wide(P, code):
    fi = tables.fmt_info(code)
    srgb = P.enum_const('PIXMAN_a8r8g8b8_sRGB')
    return max(fi['a'], fi['r'], fi['g'], fi['b']) > 8 or code == srgb


def r3_table_complete(ck, P):
    R = ck.rule('C10-R3', 'the accessor table has a row for every format the API accepts, with non-null readers, writers null only where destinations are refused; setup copies all six members', floor=100)
    names = tables.format_names(P)
    sup_src = P.fn('pixman_format_supported_source'); sup_dst = P.fn('pixman_format_supported_destination')
    sw = [x for x in sup_src.insts() if x.op == 'switch']
    if not sw:
        raise AnalysisBroken('pixman_format_supported_source is no longer a switch')
    accepted = sorted({cv & 0xffffffff for cv, bb in sw[0].d['cases'] if eval_const(P, sup_src, [cv & 0xffffffff]) == 1})
    if len(accepted) < 40:
        ck.incomplete(R, 'only %d formats accepted by pixman_format_supported_source' % len(accepted))
    for unit in ('pixman-access.c', 'pixman-access-accessors.c'):
        u, g, t = accessor_table(P, unit)
        rows = {}
        for e in t:
            if e['format'] == 0:
                break
            rows.setdefault(e['format'], e)
        for code in accepted:
            nm = names.get(code, hex(code))
            e = rows.get(code)
            if e is None:
                if unit.endswith('accessors.c') and tables.fmt_info(code)['bpp'] > 32:
                    ck.ok(R, '%s: %s absent (more than 32 bpp cannot be used with accessors)' % (unit, nm)); continue
                ck.violation(R, 'accessors', 'row for %s in %s' % (nm, unit), 'format %s is accepted by pixman_format_supported_source but has no accessor row: images of that format get no fetch/store functions' % nm, unit); continue
            probs = []
            for k in ('fetch_pixel_32', 'fetch_pixel_float', 'fetch_scanline_float'):
                if tables.fname(e[k]) is None:
                    probs.append('%s is null' % k)
            wide = is_wide(P, code)
            if tables.fname(e['fetch_scanline_32']) is None and not wide:
                probs.append('fetch_scanline_32 is null for a narrow format')
            dst_ok = eval_const(P, sup_dst, [code]) == 1
            if dst_ok:
                if tables.fname(e['store_scanline_float']) is None:
                    probs.append('store_scanline_float is null although the format is a supported destination')
                if tables.fname(e['store_scanline_32']) is None and not wide:
                    probs.append('store_scanline_32 is null although the format is a supported narrow destination')
            if probs:
                ck.violation(R, 'accessors', 'row for %s in %s' % (nm, unit), '; '.join(probs), unit)
            else:
                ck.ok(R, '%s: row %s' % (unit, nm))
        # setup copies all six members
        members = [n for n, off in [(f[1], f[0]) for f in u.lltypes['struct.format_info_t']['fields']] if n != 'format']
        for f in u.functions.values():
            st = {}
            for x in f.insts():
                if x.op == 'store':
                    lf = f.last_field(f.path(x.a[1]))
                    y = f.v(x.a[0])
                    if lf and lf.startswith('bits_image.') and y is not None and y.op == 'load':
                        sf = f.last_field(f.path(y.a[0]))
                        if sf and sf.startswith('format_info_t.'):
                            st[lf.split('.')[1]] = sf.split('.')[1]
            if st:
                ck.saw(f)
                for m in members:
                    if st.get(m) == m:
                        ck.ok(R, '%s/%s copies %s' % (unit, f.name, m))
                    else:
                        ck.violation(R, f.name, 'copy of ' + m, '%s does not install the table\'s %s into the image (installs %s)' % (f.name, m, st.get(m)), unit)


def r4_row_functions_agree(ck, P):
    R = ck.rule('C10-R4', 'every accessor row\'s scanline reader, pixel reader and writer are instantiated with one constant format equal to the row key', floor=80)
    names = tables.format_names(P)
    for unit in ('pixman-access.c', 'pixman-access-accessors.c'):
        u, g, t = accessor_table(P, unit)
        for e in t:
            if e['format'] == 0:
                break
            nm = names.get(e['format'], hex(e['format']))
            seen = {}
            for k in ('fetch_scanline_32', 'fetch_pixel_32', 'store_scanline_32'):
                fn = tables.fname(e[k]); f = u.functions.get(fn) if fn else None
                if f is None:
                    continue
                for c in f.calls():
                    g2 = u.functions.get(c.callee or '')
                    if g2 is None or not g2.internal:
                        continue
                    # a helper taking a constant pixman_format_code_t argument
                    for i, a in enumerate(c.a):
                        if a[0] == 'c' and i < len(g2.dparams) and g2.dparams[i] == 'pixman_format_code_t':
                            seen[k] = (a[1] & 0xffffffff, c)
            if not seen:
                continue
            bad = {k: v for k, v in seen.items() if v[0] != e['format']}
            if bad:
                k, (v, c) = sorted(bad.items())[0]
                ck.violation(R, tables.fname(e[k]), 'row %s in %s' % (nm, unit), 'the %s registered for %s is instantiated for %s: scanline and pixel access of this format disagree with each other or with the format' % (k, nm, names.get(v, hex(v))), c.loc())
            else:
                ck.ok(R, '%s: row %s (%s)' % (unit, nm, ','.join(sorted(seen))))


def r5_accessor_purity(ck, P):
    R = ck.rule('C10-R5', 'in the accessor instantiations no load/store uses an address derived from bits.bits (or a scanline pointer) except through read_func/write_func; the instantiation is selected iff a callback is set', floor=3)
    n = 0
    for unit in ('pixman-access-accessors.c', 'pixman-edge-accessors.c'):
        u = P.units.get(unit)
        if u is None:
            raise AnalysisBroken('accessor instantiation %s is not compiled' % unit)
        for f in u.functions.values():
            # tainted: loads of bits_image.bits, and pointer parameters named bits/line/buf of functions in this unit
            bad = None
            for x in f.insts():
                if x.op not in ('load', 'store'):
                    continue
                addr = x.a[0] if x.op == 'load' else x.a[1]
                p = f.path(addr)
                # direct field accesses of image structs are fine; what matters is a dereference of the pixel pointer
                b = p[0]
                if b[0] == 'load' and f.last_field(b[1]) == 'bits_image.bits':
                    bad = x; break
                if b[0] in ('phi', 'select'):
                    for r in common.roots(f, addr):
                        pass
            n += 1
        pass
    flagged = set()
    for unit in ('pixman-access-accessors.c', 'pixman-edge-accessors.c'):
        u = P.units[unit]
        for f in u.functions.values():
            tainted = set()
            for x in f.insts():
                if x.op == 'load' and f.last_field(f.path(x.a[0])) == 'bits_image.bits':
                    tainted.add(x.i)
            if not tainted:
                continue
            # propagate through gep/bitcast/phi/add/inttoptr
            changed = True
            while changed:
                changed = False
                for x in f.insts():
                    if x.i in tainted or x.op in ('load', 'store', 'call', 'icmp', 'br', 'ret'):
                        continue
                    if any(o and o[0] == 'v' and o[1] in tainted for o in x.a):
                        tainted.add(x.i); changed = True
            for x in f.insts():
                if x.op in ('load', 'store'):
                    addr = x.a[0] if x.op == 'load' else x.a[1]
                    if addr[0] == 'v' and addr[1] in tainted:
                        if f.name not in flagged:
                            flagged.add(f.name)
                            ck.violation(R, f.name, 'direct pixel access', '%s reads or writes pixel memory directly (not through read_func/write_func) in the accessor build: an image with callbacks is accessed behind their back' % f.name, x.loc())
                elif x.op == 'call' and x.callee is not None and not x.callee.startswith('llvm.dbg'):
                    for k, a in enumerate(x.a):
                        if a[0] == 'v' and a[1] in tainted:
                            g = P.resolve(f, x.callee)
                            if g is None and (x.callee.startswith('llvm.mem') or x.callee in ('memcpy', 'memset', 'memmove')):
                                ck.violation(R, f.name, 'direct pixel access', '%s passes pixel memory to %s in the accessor build' % (f.name, x.callee), x.loc())
            ck.ok(R, '%s/%s: pixel pointer used only through callbacks' % (unit, f.name))
    # selection of the instantiation
    acc_units = {un for un in P.units if un.endswith('-accessors.c')}
    for f in P.functions():
        if f.unit.name in acc_units:
            continue
        for c in f.calls():
            g = P.resolve(f, c.callee)
            if g is None or g.unit.name not in acc_units:
                continue
            ck.saw(f)
            conds = f.control_conditions(c.bb.id)
            pos = False; brs = set()
            for br, succ in conds:
                if br.op == 'br' and br.a:
                    a2 = f.atoms(br.a[0]); cc = f.v(br.a[0])
                    if cc is not None and cc.op == 'icmp' and (('field', 'bits_image.read_func') in a2 or ('field', 'bits_image.write_func') in a2):
                        brs.add(br.i)
                        if (cc.pred == 'ne') == (br.d['succ'][0] == succ):
                            pos = True
            if pos:
                ck.ok(R, '%s selects %s under read_func/write_func != NULL' % (f.name, c.callee))
            else:
                ck.violation(R, f.name, 'selection of ' + c.callee, '%s does not select the accessor instantiation on read_func/write_func' % f.name, c.loc())
            for d in f.calls():
                if d is c or (d.callee or '').startswith('llvm.') or d.callee == '_pixman_log_error' or d.bb.id == c.bb.id:
                    continue
                cs = f.control_conditions(d.bb.id)
                if not any(br.i in brs for br, succ in cs):
                    continue
                fields = set()
                # edge dominance: the direct path must be entered only through the NULL side of BOTH callback tests
                for br, succ in f.guard_edges(d.bb.id):
                    if br.op == 'br' and br.a:
                        cc = f.v(br.a[0]); a2 = f.atoms(br.a[0])
                        if cc is not None and cc.op == 'icmp' and (cc.pred == 'ne') != (br.d['succ'][0] == succ):
                            if ('field', 'bits_image.read_func') in a2:
                                fields.add('read_func')
                            if ('field', 'bits_image.write_func') in a2:
                                fields.add('write_func')
                if fields == {'read_func', 'write_func'}:
                    ck.ok(R, '%s uses the direct %s only when both callbacks are NULL' % (f.name, d.callee))
                else:
                    ck.violation(R, f.name, 'direct path ' + str(d.callee), '%s reaches the direct-access instantiation although %s may be set' % (f.name, ' / '.join(sorted({'read_func', 'write_func'} - fields))), d.loc())


def r6_constant_tables(ck, P):
    R = ck.rule('C10-R6', 'pixman_expand_to_float multipliers are the floats nearest 1/(2^n-1); to_linear_u starts at 0, ends at 1.0 and is strictly increasing', floor=3)
    import struct
    u, g = P.global_('pixman_expand_to_float.multipliers', required=False)
    if g is None:
        ck.incomplete(R, 'multipliers table of pixman_expand_to_float not found')
    else:
        ok = True
        for n, v in enumerate(g['init']):
            bits = int(v['bits'], 16) if isinstance(v, dict) else 0
            # stored as float; pxir prints the bit pattern of the value in its IR type
            got = struct.unpack('>f', struct.pack('>I', bits))[0] if g['type'].endswith('float]') and bits < 2 ** 32 else struct.unpack('>d', struct.pack('>Q', bits))[0]
            want = 0.0 if n == 0 else struct.unpack('>f', struct.pack('>f', 1.0 / ((1 << n) - 1)))[0]
            if got != want:
                ok = False
                ck.violation(R, 'pixman_expand_to_float', 'multipliers[%d]' % n, 'multiplier for %d-bit channels is %r, the float nearest 1/(2^%d-1) is %r: maximum does not widen to 1.0' % (n, got, n, want), 'pixman-utils.c')
        if ok:
            ck.ok(R, 'multipliers[0..%d]' % (len(g['init']) - 1))
    for unit in ('pixman-access.c', 'pixman-access-accessors.c'):
        u, g = P.global_('to_linear_u', unit, required=False)
        if g is None:
            ck.incomplete(R, 'to_linear_u not found in ' + unit); continue
        v = [x & 0xffffffff for x in g['init']]
        fl = [struct.unpack('>f', struct.pack('>I', x))[0] for x in v]
        probs = []
        if fl[0] != 0.0:
            probs.append('to_linear[0] = %r' % fl[0])
        if fl[-1] != 1.0:
            probs.append('to_linear[255] = %r' % fl[-1])
        for i in range(1, len(fl)):
            if not fl[i] > fl[i - 1]:
                probs.append('not increasing at %d' % i); break
        if probs:
            ck.violation(R, 'to_linear_u', 'sRGB table in ' + unit, '; '.join(probs), unit)
        else:
            ck.ok(R, '%s: to_linear_u monotone 0..1' % unit)


# ------------------------------------------------------------------------------ further T-BIT obligations
def _shim_program(key, lines, flags=('-DHAVE_CONFIG_H',)):
    shim = _gen(key, '\n'.join(lines) + '\n')
    S = facts.load_shim(shim, mode='O', flags=list(flags))
    return list(S.units.values())[0]


def r7_unorm(ck, P):
    R = ck.rule('C10-R7', 'unorm_to_unorm(v, from, to) is bit replication when widening and truncation to the most significant bits when narrowing, for all 1 <= from,to <= 16', floor=256)
    lines = ['#include <config.h>', '#include "pixman-private.h"']
    for a in range(1, 17):
        for b in range(1, 17):
            lines.append('uint32_t px_u_%d_%d (uint32_t v) { return unorm_to_unorm (v, %d, %d); }' % (a, b, a, b))
    SU = _shim_program('unorm', lines)
    for a in range(1, 17):
        for b in range(1, 17):
            f = SU.functions.get('px_u_%d_%d' % (a, b))
            if f is None:
                raise AnalysisBroken('unorm wrapper missing')
            got, it = bitprov.provenance(f)
            exp = [0] * 32
            for i in range(b):
                exp[i] = ('in', 0, a - b + i) if b <= a else ('in', 0, a - 1 - ((b - 1 - i) % a))
            _judge(ck, R, 'unorm %d->%d' % (a, b), got, exp, 'unorm_to_unorm', '')


def r8_scalar_helpers(ck, P):
    """C02-R6: the scalar 0565/x888 helpers used by fast paths are the general codec of r5g6b5 / x8r8g8b8"""
    R = ck.rule('C02-R6', 'convert_0565_to_0888/8888, convert_8888_to_0565, convert_x888_to_8888 have the bit provenance of the general r5g6b5 / x8r8g8b8 codec', floor=4)
    lines = ['#include <config.h>', '#include "pixman-private.h"',
             'uint32_t px_h_0565_to_0888 (uint32_t s) { return convert_0565_to_0888 ((uint16_t) s); }',
             'uint32_t px_h_0565_to_8888 (uint32_t s) { return convert_0565_to_8888 ((uint16_t) s); }',
             'uint32_t px_h_8888_to_0565 (uint32_t s) { return convert_8888_to_0565 (s); }',
             'uint32_t px_h_x888_to_8888 (uint32_t s) { return convert_x888_to_8888 (s); }']
    SU = _shim_program('helpers', lines)
    code565 = P.enum_const('PIXMAN_r5g6b5'); bpp, wid, pos = layout(code565)
    def fetch_oracle(wid, pos, alpha_default):
        exp = [None] * 32
        for c in 'argb':
            n = wid[c]
            for i in range(8):
                if n:
                    exp[CANON[c] + i] = ('in', 0, pos[c] + n - 1 - ((7 - i) % n))
                else:
                    exp[CANON[c] + i] = alpha_default if c == 'a' else 0
        return exp
    def store_oracle(wid, pos, bpp):
        exp = [0] * 32
        for j in range(bpp):
            for c in 'argb':
                n = wid[c]
                if n and pos[c] <= j < pos[c] + n:
                    exp[j] = ('in', 0, CANON[c] + 8 - n + (j - pos[c]))
        return exp
    cases = [('px_h_0565_to_0888', fetch_oracle(wid, pos, 0)), ('px_h_0565_to_8888', fetch_oracle(wid, pos, 1)), ('px_h_8888_to_0565', store_oracle(wid, pos, 16))]
    b2, w2, p2 = layout(P.enum_const('PIXMAN_x8r8g8b8'))
    cases.append(('px_h_x888_to_8888', fetch_oracle(w2, p2, 1)))
    for name, exp in cases:
        f = SU.functions.get(name)
        if f is None:
            raise AnalysisBroken('helper wrapper %s missing' % name)
        got, it = bitprov.provenance(f)
        _judge(ck, R, name[5:], got, exp, 'convert_' + name[5:], '')


def r9_color_to_pixel(ck, P):
    """C19-R3: the pixel the direct-fill shortcut writes is the general store conversion of the solid colour"""
    R = ck.rule('C19-R3', 'for every format color_to_pixel accepts, its pixel is px_store_F(color_32) for all 2^64 colours; both color_to_uint32 copies are the same 8-bit truncation', floor=12)
    names = tables.format_names(P)
    u, rows = codec_rows(P)
    lines = ['#include <config.h>', '#include <string.h>', '#include "pixman.c"']
    for e in rows:
        lines.append('uint64_t px_c2p_%x (uint64_t c) { pixman_color_t col; uint32_t p = 0; memcpy (&col, &c, 8); pixman_bool_t ok = color_to_pixel (&col, &p, (pixman_format_code_t)0x%x); return ((uint64_t)(ok != 0) << 32) | p; }' % (e['format'], e['format']))
    lines.append('uint32_t px_c2u_a (uint64_t c) { pixman_color_t col; memcpy (&col, &c, 8); return color_to_uint32 (&col); }')
    SU = _shim_program('c2p', lines)
    S2 = _shim_program('c2u', ['#include <config.h>', '#include <string.h>', '#include "pixman-solid-fill.c"',
                               'uint32_t px_c2u_b (uint64_t c) { pixman_color_t col; memcpy (&col, &c, 8); return color_to_uint32 (&col); }'])
    st = P.struct('pixman_color')
    off = {n: o for n, o, sz, ty in st['fields']}
    chan = dict(a='alpha', r='red', g='green', b='blue')
    def cbit(c, k):       # bit k (0..7) of the 8-bit channel c of color_32 = bit 8+k of the 16-bit colour member
        return ('in', 0, off[chan[c]] * 8 + 8 + k)
    exp32 = [None] * 32
    for c in 'argb':
        for i in range(8):
            exp32[CANON[c] + i] = cbit(c, i)
    for name, prog in (('px_c2u_a', SU), ('px_c2u_b', S2)):
        f = prog.functions.get(name)
        if f is None:
            raise AnalysisBroken('color_to_uint32 wrapper missing')
        got, it = bitprov.provenance(f)
        where_ = 'color_to_uint32 (%s)' % ('pixman.c' if name.endswith('a') else 'pixman-solid-fill.c')
        arith = [x for x in f.insts() if x.op in ('mul', 'udiv', 'sdiv', 'urem', 'srem')]
        if got is not None and len(got) == 32 and arith and any(got[i] == bitprov.TOP for i in range(32)):
            # the narrowing is specified as a bit selection (the 8 most significant bits of each 16-bit channel); a product or quotient in it
            # means rounding/scaling, which is a different function of the colour than the solid-image path applies
            ck.violation(R, 'color_to_uint32', where_, '%s computes the 8-bit channels with %s instead of selecting the 8 most significant bits of each 16-bit channel: the pixel a fill stores differs from the one compositing a solid image stores for colours that are not of the replicated 0xXYXY form' % (where_, '/'.join(sorted({x.op for x in arith}))), 'pixman.c' if name.endswith('a') else 'pixman-solid-fill.c')
            continue
        _judge(ck, R, where_, got, exp32, 'color_to_uint32', '')
    accepted = []
    for e in rows:
        code = e['format']; nm = names.get(code, hex(code))
        f = SU.functions.get('px_c2p_%x' % code)
        got, it = bitprov.provenance(f)
        if got is None:
            ck.incomplete(R, 'color_to_pixel %s: not evaluated' % nm); continue
        okbit = got[32]
        if okbit == 0:
            continue            # format refused: the general path is taken
        if okbit != 1:
            ck.incomplete(R, 'color_to_pixel %s: acceptance is not a constant' % nm); continue
        accepted.append(code)
        bpp, wid, pos = layout(code)
        exp = [0] * 64; exp[32] = 1
        for j in range(bpp):
            exp[j] = '*'    # padding
            for c in 'argb':
                n = wid[c]
                if n and pos[c] <= j < pos[c] + n:
                    exp[j] = cbit(c, 8 - n + (j - pos[c]))
        _judge(ck, R, 'color_to_pixel %s' % nm, got, exp, 'color_to_pixel', nm)
    if len(accepted) < 10:
        ck.incomplete(R, 'color_to_pixel accepts only %d formats' % len(accepted))
    return accepted


def r10_bilinear_weight(ck, P):
    R = ck.rule('C08-R2', 'pixman_fixed_to_bilinear_weight(x) is bits [16-B,16) of x and pixman_fixed_to_int(x) is bits [16,32) with sign extension', floor=2)
    B = consts.get(['BILINEAR_INTERPOLATION_BITS', 'BILINEAR_INTERPOLATION_RANGE'])
    nb = B['BILINEAR_INTERPOLATION_BITS']
    if not (0 < nb < 8) or B['BILINEAR_INTERPOLATION_RANGE'] != 1 << nb:
        ck.violation(R, 'BILINEAR_INTERPOLATION_BITS', 'constants', 'BILINEAR_INTERPOLATION_BITS=%d RANGE=%d violate 0 < B < 8, RANGE == 1<<B (8-bit weights overflow the interpolation arithmetic)' % (nb, B['BILINEAR_INTERPOLATION_RANGE']), 'pixman-private.h')
    SU = _shim_program('bilin', ['#include <config.h>', '#include "pixman-private.h"', '#include "pixman-inlines.h"',
                                 'uint32_t px_bw (uint32_t x) { return pixman_fixed_to_bilinear_weight ((pixman_fixed_t) x); }',
                                 'uint32_t px_fi (uint32_t x) { return pixman_fixed_to_int ((pixman_fixed_t) x); }'])
    got, it = bitprov.provenance(SU.functions['px_bw'])
    exp = [('in', 0, 16 - nb + i) for i in range(nb)] + [0] * (32 - nb)
    _judge(ck, R, 'bilinear weight', got, exp, 'pixman_fixed_to_bilinear_weight', '')
    got, it = bitprov.provenance(SU.functions['px_fi'])
    exp = [('in', 0, 16 + i) for i in range(16)] + [('in', 0, 31)] * 16
    _judge(ck, R, 'fixed_to_int', got, exp, 'pixman_fixed_to_int', '')


def r9_float_widening_format(ck, P):
    """sibling agreement of the two generic float readers"""
    R = ck.rule('C10-R9', 'every call of pixman_expand_to_float on pixels fetched from an image passes that image\'s own format (a load of bits.format of the image parameter): the scanline and the single-pixel float readers widen an n-bit channel by the same rule v/(2^n-1)', floor=2)
    n = 0
    for f in P.functions():
        for c in f.calls('pixman_expand_to_float'):
            if len(c.a) < 3:
                continue
            n += 1; ck.saw(f)
            y = f.v(f.strip_casts(c.a[2])) if c.a[2][0] == 'v' else None
            if y is not None and y.op == 'load' and f.last_field(f.path(y.a[0])) == 'bits_image.format' and f.root(f.path(y.a[0]))[0] == 'arg':
                ck.ok(R, '%s: widened with the format of its image parameter' % f.name)
            else:
                what = 'the constant 0x%x' % int(c.a[2][1]) if c.a[2][0] == 'c' else 'a value that is not the image\'s format'
                ck.violation(R, f.name, 'format passed to pixman_expand_to_float', '%s widens fetched pixels with %s instead of the image\'s format: channels narrower than 8 bits are widened through their 8-bit replication (rep8(v)/255) here and as v/(2^n-1) by the sibling reader, so the two float readers disagree' % (f.name, what), c.loc())
    if n < 2:
        ck.incomplete(R, 'expected the scanline and the single-pixel generic float reader, found %d call(s)' % n)


def r10_accessor_presence(ck, P):
    """sibling agreement: when is an image "an image with accessors"?"""
    R = ck.rule('C10-R10', 'every place that decides between direct addressing and the accessor functions from the presence of read_func / write_func takes the accessor side as soon as either one is set (partial evaluation of the decision for (read, write) = (set, none), (none, set), (set, set)): the flag computation, the accessor set-up and the edge rasteriser agree', floor=3)
    sites = []
    for f in P.functions():
        rd = [x for x in f.insts() if x.op == 'load' and (f.last_field(f.path(x.a[0])) or '').endswith('bits_image.read_func')]
        wr = [x for x in f.insts() if x.op == 'load' and (f.last_field(f.path(x.a[0])) or '').endswith('bits_image.write_func')]
        if not rd or not wr:
            continue
        # a decision: conditional branches whose condition is a null test of such a load
        tests = set()
        for x in f.insts():
            if x.op == 'icmp' and any(o[0] == 'n' for o in x.a) and any(o[0] == 'v' and f.by_id[o[1]] in rd + wr for o in x.a):
                tests.add(x.i)
        if len(tests) < 2:
            continue
        sites.append((f, {x.i for x in rd}, {x.i for x in wr}, tests))
    for f, rd, wr, tests in sites:
        ck.saw(f)
        # blocks reachable only when some accessor test says "present": compare reachability under (0,0) with the three other inputs
        def reach(rv, wv):
            def known(x):
                if x.op == 'icmp' and x.i in tests:
                    o = [q for q in x.a if q[0] == 'v'][0]
                    val = rv if o[1] in rd else wv
                    isnull = (val == 0)
                    return int(isnull if x.d['p'] == 'eq' else not isnull)
                return None
            return common.reach_under(f, known, set(range(len(f.blocks))))
        base = reach(0, 0)
        both = reach(1, 1)
        accessor_blocks = both - base          # executed when accessors are present, not when absent
        test_blocks = {f.by_id[t].bb.id for t in tests}
        direct_blocks = (base - both) - test_blocks      # blocks that only continue the decision are not a side
        if not accessor_blocks and not direct_blocks:
            continue
        bad = None
        for rv, wv, nm in ((1, 0, 'only read_func'), (0, 1, 'only write_func')):
            r = reach(rv, wv)
            if (accessor_blocks and not (accessor_blocks <= r)) or (direct_blocks & r):
                bad = nm
        where = '%s: accessor decision' % f.name
        if bad:
            ck.violation(R, f.name, 'accessor presence test', '%s treats an image with %s set as an image without accessors: it is then addressed directly by code that the accessor-aware siblings would not use, and the callback is never called' % (f.name, bad), '%s:%d' % (f.unit.name, f.line))
        else:
            ck.ok(R, where, 'either accessor selects the accessor side')
    if len(sites) < 3:
        ck.incomplete(R, 'expected at least three accessor-presence decisions, found %s' % [f.name for f, *_ in sites])


def r11_yuy2_siblings(ck, P):
    """sibling agreement: which bytes of a YUY2 row are Y, U and V of pixel p"""
    import sympy
    R = ck.rule('C10-R11', 'the scanline reader and the single-pixel reader of yuy2 take the luma of pixel p from row byte 2p and its chroma from bytes (2p & -4) + 1 and (2p & -4) + 3 of the same row: the byte offsets of the three reads are the same symbolic function of p in both readers (p = x + i in the scanline reader)', floor=6)
    A4 = sympy.Function('and')
    found = {}
    for un in ('pixman-access.c', 'pixman-access-accessors.c'):
        u = P.units.get(un)
        if u is None:
            continue
        for fn in ('fetch_scanline_yuy2', 'fetch_pixel_yuy2'):
            f = u.functions.get(fn)
            if f is None:
                ck.incomplete(R, '%s not found in %s' % (fn, un)); continue
            ck.saw(f)
            syms = {}

            def ev(o, d=0):
                if d > 30:
                    return None
                if o[0] == 'c':
                    return sympy.Integer(int(o[1]))
                if o[0] == 'a':
                    return syms.setdefault(('a', o[1]), sympy.Symbol(f.params[o[1]][0] or 'arg%d' % o[1]))
                if o[0] != 'v':
                    return None
                x = f.by_id[o[1]]
                if x.op in ('sext', 'zext', 'trunc', 'freeze'):
                    return ev(x.a[0], d + 1)
                if x.op in ('add', 'sub', 'mul'):
                    a, b = ev(x.a[0], d + 1), ev(x.a[1], d + 1)
                    return None if a is None or b is None else sympy.expand({'add': a + b, 'sub': a - b, 'mul': a * b}[x.op])
                if x.op == 'shl' and x.a[1][0] == 'c':
                    a = ev(x.a[0], d + 1)
                    return None if a is None else sympy.expand(a * 2 ** int(x.a[1][1]))
                if x.op == 'and' and any(q[0] == 'c' for q in x.a):
                    k = [int(q[1]) for q in x.a if q[0] == 'c'][0]
                    a = ev([q for q in x.a if q[0] != 'c'][0], d + 1)
                    return None if a is None else A4(a, k)
                if x.op == 'phi':
                    return syms.setdefault(('v', x.i), sympy.Symbol(x.dv or 'v%d' % x.i))
                return syms.setdefault(('v', x.i), sympy.Symbol('t%d' % x.i))

            def ptr(o, d=0):
                """byte offset from the row start of a pointer derived from the row pointer; None if it is not"""
                x = f.v(o)
                if x is None or d > 12:
                    return None
                if x.op == 'bitcast':
                    return ptr(x.a[0], d + 1)
                if x.op == 'getelementptr':
                    base = ptr(x.a[0], d + 1)
                    idx = [st for st in x.d.get('path') or [] if st[0] in ('p', 'x')]
                    if len(idx) != 1:
                        return None
                    i = ev(idx[0][1]); sz = idx[0][2]
                    if i is None:
                        return None
                    if base is None:
                        # the row pointer itself: bits + rowstride * line (element size 4); everything above it counts from the row start
                        return ('row', sympy.Integer(0)) if sz == 4 else None
                    return (base[0], sympy.expand(base[1] + i * sz))
                return None

            offs = []
            for x in f.insts():
                if x.op == 'load' and x.ty == 'i8':
                    p = ptr(x.a[0])
                    if p is not None:
                        offs.append(p[1])
                elif x.op == 'call' and x.callee is None and x.a and len(x.a) == 2 and x.a[1][0] == 'c' and int(x.a[1][1]) == 1:
                    p = ptr(x.a[0])          # image->read_func (ptr, 1) in the accessor build
                    if p is not None:
                        offs.append(p[1])
            found[(un, fn)] = offs
    for un in ('pixman-access.c', 'pixman-access-accessors.c'):
        sc, px = found.get((un, 'fetch_scanline_yuy2')), found.get((un, 'fetch_pixel_yuy2'))
        if not sc or not px or len(sc) != 3 or len(px) != 3:
            ck.incomplete(R, '%s: expected three byte reads in each yuy2 reader, found %s / %s' % (un, len(sc or []), len(px or []))); continue
        p_ = sympy.Symbol('p')
        for k, nm in enumerate(('Y', 'U', 'V')):
            a = sc[k]; b = px[k]
            xs = sympy.Symbol('x'); is_ = [s_ for s_ in a.free_symbols if str(s_) == 'i']
            a_n = a.subs({xs: p_ - (is_[0] if is_ else 0)}) if is_ else a
            a_n = sympy.expand(a_n.subs({s_: p_ - xs for s_ in is_})) if is_ else a_n
            # normalise: scanline offsets are functions of x + i; pixel offsets of `offset`
            a_p = sympy.expand(a.subs({is_[0]: p_ - xs})) if is_ else a
            b_p = sympy.expand(b.subs({s_: p_ for s_ in b.free_symbols if str(s_) == 'offset'}))
            a_p = sympy.simplify(a_p); b_p = sympy.simplify(b_p)
            if sympy.simplify(a_p - b_p) == 0:
                ck.ok(R, '%s: %s of pixel p read at row byte %s in both readers' % (un, nm, b_p))
            else:
                ck.violation(R, 'fetch_scanline_yuy2', '%s byte of a pixel (%s)' % (nm, un), 'the yuy2 scanline reader takes %s of pixel p = x + i from row byte %s, the single-pixel reader from %s: for some starting x the scanline reader pairs a luma sample with the chroma of the neighbouring macropixel (U and V swapped)' % (nm, a_p, b_p), un)


# ------------------------------------------------------------------------------ SIMD widening / narrowing helpers
_F565 = dict(r=(5, 11), g=(6, 5), b=(5, 0))


def _w8(arg, base, c):
    """the 8 bits (LSB first) of channel c widened by bit replication from the r5g6b5 pixel at bit `base` of argument `arg`"""
    n, pos = _F565[c]
    return [('in', arg, base + pos + n - 1 - ((7 - i) % n)) for i in range(8)]


def _ba(b):
    if isinstance(b, tuple) and b[0] == 'in':
        return 'bit %d of argument %d' % (b[2], b[1])
    if isinstance(b, tuple) and b[0] in ('or', 'and', 'xor'):
        return b[0].upper() + ' of {' + ', '.join(sorted(_ba(q) for q in b[1])) + '}'
    if isinstance(b, tuple) and b[0] == 'not':
        return 'inverted ' + _ba(('in',) + tuple(b[1:]))
    return _b(b)


def _n565(arg, bb, gb, rb):
    """the 16 bits of an r5g6b5 pixel narrowed from 8-bit channels whose bit 0 is at bb / gb / rb of argument `arg`"""
    return [('in', arg, bb + 3 + j) for j in range(5)] + [('in', arg, gb + 2 + j) for j in range(6)] + [('in', arg, rb + 3 + j) for j in range(5)]


def _bytes16(arg, n, base=0):
    """precondition for saturating packs: n 16-bit lanes each holding an 8-bit value"""
    out = []
    for l in range(n):
        out += [('in', arg, base + 16 * l + j) for j in range(8)] + [0] * 8
    return out


def _sse2_masks(P):
    """the 128-bit constants pixman-sse2.c keeps in globals: each is stored exactly once, by the constructor, from create_mask_16_128 /
    create_mask_2x32_128 with literal arguments (the two builders themselves are checked by provenance in the rule)"""
    u = P.units.get('pixman-sse2.c')
    out = {}
    if u is None:
        return out
    stores = defaultdict(list)
    for f in u.functions.values():
        for x in f.insts():
            if x.op == 'store' and x.a[1][0] == 'g':
                stores[x.a[1][1]].append((f, x))
    for name, sts in stores.items():
        vals = set()
        for f, x in sts:
            v = None
            c = f.v(x.a[0])
            if c is not None and c.op == 'call' and c.callee == 'create_mask_16_128' and c.a[0][0] == 'c':
                k = int(c.a[0][1]) & 0xffff
                v = sum(k << (16 * i) for i in range(8))
            elif c is not None and c.op == 'call' and c.callee == 'create_mask_2x32_128' and c.a[0][0] == 'c' and c.a[1][0] == 'c':
                m0, m1 = int(c.a[0][1]) & 0xffffffff, int(c.a[1][1]) & 0xffffffff
                v = m1 | m0 << 32 | m1 << 64 | m0 << 96
            vals.add(v)
        if len(vals) == 1 and None not in vals:
            out[name] = vals.pop()
    return out


def r12_simd_helpers(ck, P, rid='C10-R12'):
    """T-BIT over the MMX / SSE2 pixel helpers: widening r5g6b5 is bit replication, narrowing keeps the most significant bits, the
    8888 <-> 16-bit-lane helpers move whole bytes — the same definition the general accessors follow (C10-R1)"""
    R = ck.rule(rid, 'the MMX and SSE2 helpers that widen r5g6b5 / a8r8g8b8 pixels to 8-bit channels and narrow them back (expand565, expand_4xpacked565, pack_565, pack_4xpacked565, expand8888, expandx888, pack8888; unpack_565_to_8888, unpack_565_128_4x128, pack_565_4x128_128, pack_565_32_16, expand565_16_1x128, unpack_32_1x128, unpack_128_2x128, pack_2x128_128, pack_1x128_32) have bit for bit the provenance of the general codec: replication of the top bits when widening, truncation to the top bits when narrowing', floor=33)
    Z8 = [0] * 8
    ST = ['*'] * 16
    cases = []     # (unit, wrapper name, C text, arg_bits, expected, reported function)
    # ---------------- MMX
    mm = ['#include <config.h>', '#include "pixman-mmx.c"']
    for pos in range(4):
        nm = 'px_mmx_expand565_%d' % pos
        mm.append('uint64_t %s (uint64_t s) { return to_uint64 (expand565 (to_m64 (s), %d)); }' % (nm, pos))
        cases.append(('mmx', nm, None, _w8(0, 16 * pos, 'b') + Z8 + _w8(0, 16 * pos, 'g') + Z8 + _w8(0, 16 * pos, 'r') + Z8 + ST, 'expand565'))
        nm = 'px_mmx_pack_565_%d' % pos
        mm.append('uint64_t %s (uint64_t s, uint64_t t) { return to_uint64 (pack_565 (to_m64 (s), to_m64 (t), %d)); }' % (nm, pos))
        exp = [('in', 1, j) for j in range(64)]
        exp[16 * pos:16 * pos + 16] = _n565(0, 0, 16, 32)
        cases.append(('mmx', nm, None, exp, 'pack_565'))
    for k in range(2):
        for fa in range(2):
            nm = 'px_mmx_expand4_%d_%d' % (k, fa)
            mm.append('uint64_t %s (uint64_t s) { __m64 a, b; expand_4xpacked565 (to_m64 (s), &a, &b, %d); return to_uint64 (%s); }' % (nm, fa, 'ab'[k]))
            exp = []
            for px in (2 * k, 2 * k + 1):
                exp += _w8(0, 16 * px, 'b') + _w8(0, 16 * px, 'g') + _w8(0, 16 * px, 'r') + [fa] * 8
            cases.append(('mmx', nm, None, exp, 'expand_4xpacked565'))
        nm = 'px_mmx_expand8888_%d' % k
        mm.append('uint64_t %s (uint64_t s) { return to_uint64 (expand8888 (to_m64 (s), %d)); }' % (nm, k))
        exp = []
        for c in range(4):
            exp += [('in', 0, 32 * k + 8 * c + j) for j in range(8)] + Z8
        cases.append(('mmx', nm, None, exp, 'expand8888'))
        nm = 'px_mmx_expandx888_%d' % k
        mm.append('uint64_t %s (uint64_t s) { return to_uint64 (expandx888 (to_m64 (s), %d)); }' % (nm, k))
        cases.append(('mmx', nm, None, exp[:48] + [1] * 8 + Z8, 'expandx888'))
    mm.append('uint64_t px_mmx_pack4 (uint64_t s, uint64_t t) { return to_uint64 (pack_4xpacked565 (to_m64 (s), to_m64 (t))); }')
    exp = []
    for px in range(4):
        b = 32 * (px % 2)
        exp += _n565(px // 2, b, b + 8, b + 16)
    cases.append(('mmx', 'px_mmx_pack4', None, exp, 'pack_4xpacked565'))
    mm.append('uint64_t px_mmx_pack8888 (uint64_t s, uint64_t t) { return to_uint64 (pack8888 (to_m64 (s), to_m64 (t))); }')
    exp = []
    for a in range(2):
        for l in range(4):
            exp += [('in', a, 16 * l + j) for j in range(8)]
    cases.append(('mmx', 'px_mmx_pack8888', {0: _bytes16(0, 4), 1: _bytes16(1, 4)}, exp, 'pack8888'))
    # ---------------- SSE2
    ss = ['#include <config.h>', '#include "pixman-sse2.c"',
          '__m128i px_sse2_cm16 (uint16_t m) { return create_mask_16_128 (m); }',
          '__m128i px_sse2_cm2x32 (uint32_t a, uint32_t b) { return create_mask_2x32_128 (a, b); }']
    cases.append(('sse2', 'px_sse2_cm16', None, [('in', 0, j % 16) for j in range(128)], 'create_mask_16_128'))
    cases.append(('sse2', 'px_sse2_cm2x32', None, ([('in', 1, j) for j in range(32)] + [('in', 0, j) for j in range(32)]) * 2, 'create_mask_2x32_128'))
    ss.append('__m128i px_sse2_unpack565 (__m128i s) { return unpack_565_to_8888 (s); }')
    ab = []; exp = []
    for l in range(4):
        ab += [('in', 0, 32 * l + j) for j in range(16)] + [0] * 16
        exp += _w8(0, 32 * l, 'b') + _w8(0, 32 * l, 'g') + _w8(0, 32 * l, 'r') + ['*'] * 8
    cases.append(('sse2', 'px_sse2_unpack565', {0: ab}, exp, 'unpack_565_to_8888'))
    for k in range(4):
        nm = 'px_sse2_unpack4_%d' % k
        ss.append('__m128i %s (__m128i s) { __m128i a, b, c, d; unpack_565_128_4x128 (s, &a, &b, &c, &d); return %s; }' % (nm, 'abcd'[k]))
        exp = []
        for px in (2 * k, 2 * k + 1):
            exp += _w8(0, 16 * px, 'b') + Z8 + _w8(0, 16 * px, 'g') + Z8 + _w8(0, 16 * px, 'r') + Z8 + ST
        cases.append(('sse2', nm, None, exp, 'unpack_565_128_4x128'))
    ss.append('__m128i px_sse2_pack4 (__m128i a, __m128i b, __m128i c, __m128i d) { return pack_565_4x128_128 (&a, &b, &c, &d); }')
    exp = []
    for px in range(8):
        b = 64 * (px % 2)
        exp += _n565(px // 2, b, b + 16, b + 32)
    cases.append(('sse2', 'px_sse2_pack4', {i: _bytes16(i, 8) for i in range(4)}, exp, 'pack_565_4x128_128'))
    ss.append('uint32_t px_sse2_pack_565_32_16 (uint32_t s) { return pack_565_32_16 (s); }')
    cases.append(('sse2', 'px_sse2_pack_565_32_16', None, _n565(0, 0, 8, 16) + [0] * 16, 'pack_565_32_16'))
    ss.append('__m128i px_sse2_expand565_16 (uint32_t s) { return expand565_16_1x128 ((uint16_t) s); }')
    cases.append(('sse2', 'px_sse2_expand565_16', None, _w8(0, 0, 'b') + Z8 + _w8(0, 0, 'g') + Z8 + _w8(0, 0, 'r') + Z8 + ['*'] * 80, 'expand565_16_1x128'))
    ss.append('__m128i px_sse2_unpack32 (uint32_t s) { return unpack_32_1x128 (s); }')
    exp = []
    for c in range(4):
        exp += [('in', 0, 8 * c + j) for j in range(8)] + Z8
    cases.append(('sse2', 'px_sse2_unpack32', None, exp + [0] * 64, 'unpack_32_1x128'))
    ss.append('uint32_t px_sse2_pack32 (__m128i s) { return pack_1x128_32 (s); }')
    cases.append(('sse2', 'px_sse2_pack32', {0: _bytes16(0, 8)}, [('in', 0, 16 * (j // 8) + j % 8) for j in range(32)], 'pack_1x128_32'))
    for k in range(2):
        nm = 'px_sse2_unpack128_%d' % k
        ss.append('__m128i %s (__m128i s) { __m128i a, b; unpack_128_2x128 (s, &a, &b); return %s; }' % (nm, 'ab'[k]))
        exp = []
        for c in range(8):
            exp += [('in', 0, 64 * k + 8 * c + j) for j in range(8)] + Z8
        cases.append(('sse2', nm, None, exp, 'unpack_128_2x128'))
    ss.append('__m128i px_sse2_pack128 (__m128i a, __m128i b) { return pack_2x128_128 (a, b); }')
    exp = []
    for a in range(2):
        for l in range(8):
            exp += [('in', a, 16 * l + j) for j in range(8)]
    cases.append(('sse2', 'px_sse2_pack128', {0: _bytes16(0, 8), 1: _bytes16(1, 8)}, exp, 'pack_2x128_128'))
    have = {'mmx': 'pixman-mmx.c' in P.units, 'sse2': 'pixman-sse2.c' in P.units}
    SU = {}
    if have['mmx']:
        SU['mmx'] = _shim_program('simd565mmx', mm, flags=('-DHAVE_CONFIG_H', '-mmmx', '-DUSE_X86_MMX', '-Wno-everything'))
    if have['sse2']:
        SU['sse2'] = _shim_program('simd565sse2', ss, flags=('-DHAVE_CONFIG_H', '-msse2', '-DUSE_SSE2', '-Wno-everything'))
    gl = _sse2_masks(P)
    for unit, name, ab, exp, fn in cases:
        if unit not in SU:
            continue
        f = SU[unit].functions.get(name)
        if f is None:
            raise AnalysisBroken('helper wrapper %s missing' % name)
        got, it = bitprov.simd_provenance(f, ab, gl)
        src = 'pixman-%s.c' % unit
        what = '%s (%s)' % (fn, name[3:])
        if got is None:
            ck.incomplete(R, '%s: no return value computed' % what); continue
        if len(got) != len(exp):
            ck.incomplete(R, '%s: result width %d, expected %d' % (what, len(got), len(exp))); continue
        diff = [(i, got[i], exp[i]) for i in range(len(exp)) if got[i] != exp[i] and exp[i] != '*']
        if not diff:
            ck.ok(R, what, 'all %d result bits have the specified provenance' % len(exp)); continue
        if all(g == bitprov.TOP for _, g, _ in diff):
            ck.incomplete(R, '%s: %d result bits could not be traced (first: bit %d; untraced: %s)' % (what, len(diff), diff[0][0], sorted({(u.callee or u.op) for u in it.unknown})[:4])); continue
        i, g, e = [d for d in diff if d[1] != bitprov.TOP][0]
        ck.violation(R, fn, what, '%s: result bit %d comes from %s but widening by bit replication / narrowing to the top bits requires %s (%d bits differ): this helper no longer agrees with the general codec of the format' % (what, i, _ba(g), _ba(e), len(diff)), src)


def r15_alphaless_fetchers_force_alpha(ck, P, rid='C10-R15'):
    """T-BIT (structural half): the scanline readers an implementation registers for a format without alpha channel hand every pixel on
    with alpha 0xff - each store into the output scanline, vector or scalar, head, body or tail."""
    from . import tables
    from .. import build, facts as _facts
    R = ck.rule(rid, 'in every scanline reader registered (pixman_iter_info_t with _pixman_iter_init_bits_stride) for a format without alpha channel, each value written to the output scanline has its alpha byte(s) forced to 0xff: it is x | 0xff000000, a bitwise-or helper applied to a constant whose every 32-bit lane is 0xff000000, the result of a conversion helper all of whose returns are of that form, or an out-parameter of a widening helper called with its full-alpha flag set (the helper itself is C10-R12): absent alpha reads as 1 for every pixel of the scanline, including the pixels left over after the vector loop', floor=20)
    names = tables.format_names(P)
    masks = _sse2_masks(P)
    progs = {}
    def prog_for(u):
        if u.name == 'pixman-mmx.c':
            if 'S' not in progs:
                progs['S'] = _facts.Program(build.library_facts('S', only={'pixman-mmx.c'}))
            return progs['S']
        return P
    def lanes_ff(v, bits):
        v &= (1 << bits) - 1
        return bits >= 32 and all((v >> (32 * i)) & 0xff000000 == 0xff000000 for i in range(bits // 32))
    def strip(f, o):
        y = f.v(o)
        while y is not None and y.op == 'bitcast':
            o = y.a[0]; y = f.v(o)
        return o
    def const_mask(PP, f, o):
        o = strip(f, o); y = f.v(o)
        if o[0] == 'c':
            return lanes_ff(int(o[1]), 32)
        if y is None or y.op != 'load':
            return False
        a = y.a[0]
        if a[0] == 'g' and a[1] in masks:
            return lanes_ff(masks[a[1]], 128)
        if a[0] == 'ce' and a[1] == 'getelementptr' and a[2][0][0] == 'g':
            try:
                u_, g_ = PP.global_(a[2][0][1], unit=f.unit.name)
            except Exception:
                return False
            init = g_.get('init')
            if isinstance(init, str):
                import ast
                try:
                    init = ast.literal_eval(init)
                except Exception:
                    return False
            idx = int(a[2][-1][1])
            if g_.get('const') in (True, 'True') and isinstance(init, list) and idx < len(init):
                return lanes_ff(int(init[idx]), 64)
        return False
    def is_or_helper(g):
        ops = [x for x in g.insts() if x.op not in ('bitcast', 'ret', 'alloca', 'store', 'load')]
        if len(g.params) != 2 or len(ops) != 1:
            return False
        x = ops[0]
        return x.op == 'or' or (x.op == 'call' and isinstance(x.callee, str) and x.callee in ('llvm.x86.mmx.por',))
    def forced(PP, f, o, depth=0, seen=None):
        """(True, reason) | (False, reason)"""
        seen = seen if seen is not None else set()
        o = strip(f, o); y = f.v(o)
        if depth > 8 or y is None:
            return False, 'a value whose alpha is not established'
        if y.i in seen:
            return True, 'cycle'
        seen.add(y.i)
        if y.op == 'or':
            if any(a[0] == 'c' and lanes_ff(int(a[1]), _vbits(y.ty) or 32) for a in y.a):
                return True, 'or with 0xff000000'
            for a in y.a:
                if a[0] != 'c' and forced(PP, f, a, depth + 1, seen)[0]:
                    return True, 'or with a forced value'
            if any(const_mask(PP, f, a) for a in y.a):
                return True, 'or with the alpha mask constant'
            return False, 'an or that does not set the alpha byte'
        if y.op in ('phi', 'select'):
            for a in (y.a if y.op == 'phi' else y.a[1:]):
                ok, why = forced(PP, f, a, depth + 1, seen)
                if not ok:
                    return False, why
            return True, 'all incoming values forced'
        if y.op == 'call' and y.callee:
            g = PP.resolve(f, y.callee)
            if g is None:
                return False, 'the result of %s' % y.callee
            if is_or_helper(g):
                if any(const_mask(PP, f, a) for a in y.a) or any(forced(PP, f, a, depth + 1, seen)[0] for a in y.a):
                    return True, '%s with the alpha mask' % y.callee
                return False, '%s of operands none of which is the 0xff000000 mask' % y.callee
            rets = [x for x in g.insts() if x.op == 'ret' and x.a]
            if rets and all(forced(PP, g, x.a[0], depth + 1, set())[0] for x in rets):
                return True, 'every return of %s sets the alpha byte' % y.callee
            return False, 'the result of %s, which does not set the alpha byte' % y.callee
        if y.op == 'load':
            r = f.root(f.path(y.a[0]))
            if r[0] == 'alloca':
                for c in f.calls():
                    if not c.callee or PP.resolve(f, c.callee) is None:
                        continue
                    if any(a[0] == 'v' and f.root(f.path(a)) == r for a in c.a):
                        ints = [a for a in c.a if a[0] == 'c']
                        if ints and all(int(a[1]) != 0 for a in ints):
                            return True, 'out-parameter of %s called with its flag set' % c.callee
                        return False, 'an out-parameter of %s called with a zero flag' % c.callee
            return False, 'a pixel loaded and stored as it is'
        return False, 'a value (%s) whose alpha is not established' % y.op
    n = 0
    done = set()
    for u, g, t in tables.iter_tables(P):
        for idx, e in enumerate(t):
            fn = tables.fname(e['get_scanline'])
            if not fn or tables.fname(e['initializer']) != '_pixman_iter_init_bits_stride' or e['format'] not in names:
                continue
            fi = tables.fmt_info(e['format'])
            if fi['a'] != 0 or fi['type'] not in (2, 3) or (u.name, fn) in done:       # ARGB / ABGR colour formats without alpha bits
                continue
            done.add((u.name, fn))
            PP = prog_for(u)
            f = PP.units[u.name].functions.get(fn)
            if f is None:
                raise AnalysisBroken('%s: %s not found in %s' % (rid, fn, u.name))
            def from_out(o, seen=None):
                seen = set() if seen is None else seen
                y = f.v(o)
                if y is None or y.i in seen:
                    return False
                seen.add(y.i)
                if y.op == 'load':
                    return f.last_field(f.path(y.a[0])) == 'pixman_iter_t.buffer'
                if y.op in ('getelementptr', 'bitcast'):
                    return from_out(y.a[0], seen)
                if y.op == 'phi':
                    return any(from_out(a, seen) for a in y.a)
                return False
            writes = []
            for x in f.insts():
                if x.op == 'store' and from_out(x.a[1]):
                    writes.append((x, x.a[0]))
                elif x.op == 'call' and x.callee and any(a[0] == 'v' and from_out(a) for a in x.a):
                    h = PP.resolve(f, x.callee)
                    if h is None:
                        continue
                    vals = [a for a in x.a if not (a[0] == 'v' and from_out(a))]
                    if len(vals) == 1:
                        writes.append((x, vals[0]))
            if not writes:
                continue            # a reader that hands the image's own row on without touching it (destination no-op)
            for x, v in writes:
                n += 1; ck.saw(f)
                ok, why = forced(PP, f, v)
                where = '%s (%s): write at %s' % (fn, names[e['format']], x.loc())
                if ok:
                    ck.ok(R, where, why)
                else:
                    ck.violation(R, fn, 'scanline write at %s' % x.loc(), '%s is registered as the scanline reader for %s, a format without alpha channel, but at %s it writes %s: that pixel takes its alpha from the undefined x bits (or none at all) instead of reading as opaque, so the scanline reader disagrees with the single-pixel reader and with the other implementations' % (fn, names[e['format']], x.loc(), why), x.loc())
    if n == 0:
        raise AnalysisBroken('%s: no scanline reader for an alpha-less format found in the iterator tables' % rid)


def _vbits(ty):
    m = re.match(r'<(\d+) x i(\d+)>$', ty or '')
    if m:
        return int(m.group(1)) * int(m.group(2))
    m = re.match(r'i(\d+)$', ty or '')
    return int(m.group(1)) if m else None


def r16_scanline_readers_are_memoryless(ck, P, rid='C10-R16'):
    """T-DEP: a scanline reader computes output pixel i from what it loads for pixel i.  No value loaded from the image is carried round
    the pixel loop in a phi (a chroma sample kept for 'the second pixel of the pair' is keyed to the loop counter, not to the absolute
    position, and goes stale when the scanline starts at an odd x)."""
    from .factors import _loops_of
    R = ck.rule(rid, 'in every scanline reader registered in accessors[] (both the direct and the accessor instantiation) no phi of a pixel-loop header receives, along the back edge, a value that comes from a load of image memory or from a read_func call: each output pixel depends only on what is read in its own iteration, so that the scanline reader agrees with the single-pixel reader whatever x the scanline starts at', floor=150)
    n = 0
    for unit in ('pixman-access.c', 'pixman-access-accessors.c'):
        u = P.units.get(unit)
        if u is None:
            continue
        _u, _g, t = accessor_table(P, unit)
        L = _loops_of(u)
        fns = set()
        for row in t:
            for col in ('fetch_scanline_32', 'fetch_scanline_float'):
                nm = tables.fname(row.get(col))
                if nm:
                    fns.add(nm)
        for fn in sorted(fns):
            f = u.functions.get(fn)
            if f is None:
                continue
            for lp in L.get(fn, []):
                hdr = lp['header']; body = set(lp['blocks'])
                for x in f.blocks[hdr].insts:
                    if x.op != 'phi':
                        continue
                    n += 1; ck.saw(f)
                    bad = None
                    for a, bb in zip(x.a, x.d['bb']):
                        if bb not in body or a[0] != 'v':
                            continue
                        seen = set(); work = [a]
                        while work and bad is None:
                            o = work.pop()
                            if o[0] != 'v' or o[1] in seen:
                                continue
                            seen.add(o[1])
                            y = f.by_id[o[1]]
                            if y.bb.id not in body:
                                continue
                            if y.i == x.i:
                                continue
                            if y.op == 'load':
                                r = f.root(f.path(y.a[0]))
                                if r[0] != 'alloca':
                                    bad = y
                                continue
                            if y.op == 'call':
                                if y.callee is None:
                                    bad = y             # read_func
                                continue
                            if y.op == 'getelementptr':
                                work.append(y.a[0]); continue
                            work.extend(q for q in y.a if q and q[0] == 'v')
                    where = '%s/%s: loop at block %d, phi %s' % (unit, fn, hdr, x.dv or x.i)
                    if bad is not None:
                        ck.violation(R, fn, 'value carried round the pixel loop', '%s keeps a value read from the image (%s at %s) in a variable that lives across iterations of its pixel loop (%s): the pixel written in one iteration depends on what an earlier iteration read, so the result depends on where the scanline starts and differs from the single-pixel reader' % (fn, bad.op, bad.loc(), x.dv or 'phi'), bad.loc())
                    else:
                        ck.ok(R, where)
    if n == 0:
        raise AnalysisBroken('%s: no pixel loop found in the scanline readers of accessors[]' % rid)


def r17_converted_pixels_get_the_alpha_mask(ck, P, rid='C10-R17'):
    """sibling agreement inside the templated C fetchers: they are instantiated once per format through a `convert_pixel` callback and a
    `format` constant, and force the alpha of alpha-less formats by or-ing every converted pixel with `mask` (0xff000000 when the format
    has no alpha).  Every call through the callback - in the repeat branch and in the no-repeat branch alike - is followed by that or."""
    R = ck.rule(rid, 'in every fetcher that converts source pixels through a convert_pixel callback parameter, the result of each such call is or-ed with the alpha mask of the format (a value whose slice contains the constant 0xff000000, selected by PIXMAN_FORMAT_A (format)) before it is used: absent alpha reads as 1 on every branch of the fetcher (repeat and no repeat, every tap)', floor=10)
    n = 0
    for f in P.functions():
        cps = [i for i, (pn, pt) in enumerate(f.params) if pn == 'convert_pixel' or (pt.startswith('i32 (i8*, i32)*'))]
        if not cps:
            continue
        for c in f.calls():
            if c.callee is not None or 'callee' not in c.d or list(c.d['callee']) not in [['a', k] for k in cps]:
                continue
            n += 1; ck.saw(f)
            ok = False
            for u_ in f.users(c):
                if u_.op == 'or':
                    other = [a for a in u_.a if list(a) != ['v', c.i]]
                    for o in other:
                        if o[0] == 'c' and int(o[1]) & 0xffffffff == 0xff000000:
                            ok = True
                        seen = set(); work = [o]
                        while work:
                            q = work.pop()
                            if q[0] == 'c' and int(q[1]) & 0xffffffff == 0xff000000:
                                ok = True
                            y = f.v(q) if q[0] == 'v' else None
                            if y is None or y.i in seen or y.op in ('load', 'call'):
                                continue
                            seen.add(y.i)
                            work.extend(a for a in y.a if a)
            where = '%s: converted pixel at %s' % (f.name, c.loc())
            if ok:
                ck.ok(R, where, 'or-ed with the alpha mask')
            else:
                ck.violation(R, f.name, 'converted pixel at %s' % c.loc(), '%s uses the result of convert_pixel at %s without or-ing it with the alpha mask of the format: for x8r8g8b8 the undefined x byte, for r5g6b5 zero, is taken as the alpha of that sample, while the other branches of the same fetcher (and the general fetcher) deliver such pixels opaque' % (f.name, c.loc()), c.loc())
    if n == 0:
        raise AnalysisBroken('%s: no call through a convert_pixel callback parameter found' % rid)


def r18_yuv_clamps_are_signed(ck, P, rid='C10-R18'):
    """Sibling agreement + contradiction: the YUV readers compute each colour channel as a signed sum of products (the chroma terms are
    negative for half of the range) and clamp it from below at 0.  The clamp only exists if the comparison is signed: on an unsigned
    value `r >= 0` is always true, and an underflowing channel saturates to 255 instead of 0."""
    R = ck.rule(rid, 'in every reader that converts YUV to RGB (the functions multiplying by the luma coefficient 0x012b27), each of the three channel sums is compared with 0 by a signed comparison before it is shifted into place - three signed lower clamps per reader, the same in the scanline and the single-pixel readers of yuy2 and yv12', floor=8)
    n = 0
    for un in ('pixman-access.c', 'pixman-access-accessors.c'):
        u = P.units.get(un)
        if u is None:
            continue
        for fn, f in sorted(u.functions.items()):
            lum = [x for x in f.insts() if x.op == 'mul' and any(a[0] == 'c' and int(a[1]) == 0x012b27 for a in x.a)]
            if len(lum) < 3:
                continue
            n += 1; ck.saw(f)
            def is_sum(o, d=0):
                y = f.v(o) if o[0] == 'v' else None
                if y is None or d > 6:
                    return False
                if y in lum:
                    return True
                if y.op in ('add', 'sub', 'phi'):
                    return any(is_sum(a, d + 1) for a in y.a)
                return False
            signed = []; unsigned_ = []
            for x in f.insts():
                if x.op != 'icmp' or not any(a[0] == 'c' and int(a[1]) in (0, -1) for a in x.a):
                    continue
                other = [a for a in x.a if not (a[0] == 'c' and int(a[1]) in (0, -1))]
                if not other or not is_sum(other[0]):
                    continue
                (signed if x.pred in ('sge', 'sgt', 'slt', 'sle') else unsigned_).append(x)
            where = '%s/%s' % (un, fn)
            if len(signed) >= 3 and not unsigned_:
                ck.ok(R, where, '%d signed lower clamps' % len(signed))
            else:
                at = (unsigned_[0] if unsigned_ else lum[0]).loc()
                ck.violation(R, fn, 'lower clamp of the colour channels', '%s has %d signed comparison(s) of its channel sums with 0 and %d unsigned one(s), where its siblings have three signed ones: a channel that underflows (saturated primaries, Y below 16) is not clamped to 0 but taken for a huge value and saturates to 255, and the single-pixel and scanline readers disagree' % (fn, len(signed), len(unsigned_)), at)
    if n == 0:
        raise AnalysisBroken('%s: no YUV reader found' % rid)


def r19_sizeless_formats_expand_as_argb(ck, P, rid='C10-R19'):
    """Partial evaluation over the format enumeration: the fetchers of every format without channel sizes (indexed, gray, YUV: the low 16
    bits of the code are 0) deliver a8r8g8b8, and the float widening reads the channel layout out of the format code.  For each such
    code in enum pixman_format_code_t, the path through pixman_expand_to_float must replace the format by a8r8g8b8."""
    from . import common
    R = ck.rule(rid, 'for every code of enum pixman_format_code_t whose channel-size fields are all 0, partial evaluation of pixman_expand_to_float with that format takes the edge that substitutes PIXMAN_a8r8g8b8 and never the one that keeps the caller\'s code: otherwise all four channel masks are 0 and every pixel of an indexed, gray or YUV image widens to opaque black in the float pipeline while the 8-bit pipeline shows the picture', floor=8)
    f = P.fn('pixman_expand_to_float')
    if f is None:
        raise AnalysisBroken('%s: pixman_expand_to_float not found' % rid)
    E = P.enum('pixman_format_code_t')
    argb = E.get('PIXMAN_a8r8g8b8')
    phi = None
    for x in f.insts():
        if x.op == 'phi' and any(a[0] == 'c' for a in x.a) and any(a[0] == 'a' and f.params[a[1]][1] == 'i32' for a in x.a):
            phi = x
    if phi is None and argb is not None:
        # no merge at all: are the channel sizes taken from the caller's code as it came in?
        raw = [x for x in f.insts() if x.op in ('lshr', 'and') and x.a[0][0] == 'a' and f.params[x.a[0][1]][1] == 'i32']
        if raw:
            ck.saw(f)
            ck.violation(R, f.name, 'channel sizes read from the unsubstituted format', 'pixman_expand_to_float extracts the channel sizes from the format code as the caller passed it (%s); the substitution of a8r8g8b8 for formats without channel sizes does not reach that use (it comes later, or not at all): every pixel of an indexed, gray or YUV image widens to opaque black in the float pipeline' % raw[0].loc(), raw[0].loc())
            return
    if phi is None or argb is None:
        raise AnalysisBroken('%s: no merge of the format parameter with a constant format in pixman_expand_to_float' % rid)
    ck.saw(f)
    subst = [int(a[1]) & 0xffffffff for a in phi.a if a[0] == 'c']
    if any(v != argb for v in subst):
        inv_ = {v: k_ for k_, v in E.items()}
        ck.violation(R, f.name, 'substitute format', 'pixman_expand_to_float replaces a format without channel sizes by %s instead of PIXMAN_a8r8g8b8, the format its fetchers deliver: the alpha (or a colour channel) of every indexed, gray or YUV pixel is then read from the wrong bits - with x8r8g8b8 every palette entry widens to alpha 1.0 in the float pipeline while the 8-bit pipeline keeps the palette\'s alpha' % ', '.join(inv_.get(v, hex(v)) for v in subst if v != argb), phi.loc())
    k = [a for a in phi.a if a[0] == 'a'][0][1]
    keep = {(bb, phi.bb.id) for a, bb in zip(phi.a, phi.d['bb']) if a[0] == 'a'}
    n = 0
    for name, code in sorted(E.items()):
        if code & 0xffff or code == 0:
            continue
        n += 1
        taken = set()
        common.reach_under(f, lambda x: None, set(), args={k: code}, on_edge=lambda a, b, t: taken.add((a, b)))
        where = 'pixman_expand_to_float: %s' % name
        if taken & keep:
            ck.violation(R, f.name, 'format %s' % name, 'pixman_expand_to_float keeps the format code %s (no channel sizes) instead of substituting a8r8g8b8: all channel masks are 0, so every pixel of such an image becomes (alpha 1, colour 0) in the float pipeline - opaque black - although its fetcher delivered a8r8g8b8 pixels and the 8-bit pipeline shows them' % name, phi.loc())
        else:
            ck.ok(R, where, 'expanded as a8r8g8b8')
    if n == 0:
        raise AnalysisBroken('%s: the format enumeration has no code without channel sizes' % rid)


def r20_pixel_reader_stride_matches_row_format(ck, P, rid='C04-R22'):
    """T-TAB: each row of accessors[] names a single-pixel reader next to the format code.  The reader addresses pixel `offset` of a row at
    offset * (bytes per pixel); the bytes per pixel it uses are those of the row's format (the bpp field of the code)."""
    R = ck.rule(rid, 'for every row of accessors[] whose wide single-pixel reader addresses the row itself (it does not go through another reader), the product offset * k that forms the element index, with the size of the element type, amounts to the bytes per pixel of the row\'s format code: the rgb_float row (96 bits per pixel) served by the rgba_float reader (128) takes pixel n from 16 n instead of 12 n and reads up to a third of a row beyond the row - beyond the image for the last row', floor=2)
    n = 0
    for un in ('pixman-access.c', 'pixman-access-accessors.c'):
        if un not in P.units:
            continue
        u, g, t = accessor_table(P, un)
        for e in t:
            for slot in ('fetch_pixel_float', 'fetch_pixel_32'):
                fn = tables.fname(e.get(slot))
                f = u.functions.get(fn) if fn else None
                if f is None or any(c.callee is None for c in f.calls()):
                    continue
                offs = [i for i, (nm, ty) in enumerate(f.params) if nm == 'offset' and ty == 'i32']
                if not offs:
                    continue
                k = None; esz = None
                for x in f.insts():
                    if x.op in ('mul', 'shl') and any(list(f.strip_casts(a)) == ['a', offs[0]] for a in x.a) and any(a[0] == 'c' for a in x.a):
                        c_ = [int(a[1]) for a in x.a if a[0] == 'c'][0]
                        kk = c_ if x.op == 'mul' else (1 << c_)
                        for q in f.users(x):
                            qq = q
                            if qq.op in ('sext', 'zext'):
                                us = f.users(qq)
                                qq = us[0] if us else qq
                            if qq.op == 'getelementptr':
                                ety = qq.ty[:-1] if qq.ty.endswith('*') else qq.ty
                                es = {'float': 4, 'i32': 4, 'i16': 2, 'i8': 1, 'i64': 8, 'double': 8}.get(ety)
                                if es:
                                    k, esz = kk, es
                if k is None:
                    continue
                bpp = tables.fmt_info(e['format'])['bpp']
                n += 1; ck.saw(f)
                where = '%s: %s of format %#x (%d bpp)' % (un, fn, e['format'], bpp)
                if k * esz * 8 == bpp:
                    ck.ok(R, where)
                else:
                    ck.violation(R, fn, 'row of format %#x (%s)' % (e['format'], slot), 'the accessors[] row of format %#x (%d bits per pixel) names %s as its %s reader, which addresses pixel n at element %d n of a %d-byte element type (%d bits per pixel): pixels are taken from the wrong place, and for the last quarter of a row from beyond it' % (e['format'], bpp, fn, slot, k, esz, k * esz * 8), '%s table accessors' % un)
    if n == 0:
        raise AnalysisBroken('%s: no single-pixel reader with an offset * k element index found in accessors[]' % rid)
