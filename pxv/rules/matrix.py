"""Fixed-point transform rules (C11)."""
import re
from collections import defaultdict
from ..build import AnalysisBroken
from . import common

UNIT = 'pixman-matrix.c'

# asserts whose truth needs a value argument the type-range discharge cannot make; each confirmed by reading the code, one reason per entry.
# Keyed by (function, asserted expression): an assertion with another expression at the same place is NOT covered.
CONFIRMED_ASSERTS = {
    ('rounded_udiv_128_by_48', 'div <= ((uint64_t)1 << 48)'):
        'the only caller, rounded_sdiv_128_by_49, passes |div| of a divisor built either from divint in [-2^32, 2^32) (hi32divbits == 0) shifted by 16 plus a 16-bit fraction, '
        'or from fixed_64_16_to_int128 reduced to 48 bits; both magnitudes are <= 2^48',
}


def _assert_text(P, u, c):
    o = c.a[0]
    g = None
    if o[0] == 'ce':
        for q in o[2]:
            if q[0] == 'g':
                g = q[1]
    elif o[0] == 'g':
        g = o[1]
    gg = u.globals.get(g) if g else None
    if gg is None:
        return None
    s = gg.get('init')
    return s.rstrip('\x00') if isinstance(s, str) else None


def r1_no_abort(ck, P):
    R = ck.rule('C11-R1', 'no assertion can fire from the public matrix API: each assert in the matrix unit is discharged by the type range of every caller\'s arguments or is a confirmed invariant', floor=15)
    u = P.units.get(UNIT)
    if u is None:
        raise AnalysisBroken(UNIT + ' not compiled')
    callers = P.callers()
    n = 0
    for f in u.functions.values():
        for c in f.calls('__assert_fail'):
            n += 1; ck.saw(f)
            text = _assert_text(P, u, c) or '?'
            what = '%s: assert (%s)' % (f.name, text)
            if (f.name, text) in CONFIRMED_ASSERTS:
                ck.ok(R, what, 'confirmed invariant: ' + CONFIRMED_ASSERTS[(f.name, text)]); continue
            # assertion on a loaded member of a pointer parameter compared with a constant: discharge at each library call site
            cond_blocks = f.blocks[c.bb.id].pred
            sub = None
            for pb in cond_blocks:
                t = f.blocks[pb].term
                if t.op == 'br' and t.a:
                    cc, pred, ops = f.cond(t.a[0])
                    if cc is not None and cc.op == 'icmp' and len(ops) == 2:
                        for i in (0, 1):
                            y = f.v(f.strip_casts(ops[i]))
                            if y is not None and y.op == 'load' and f.root(f.path(y.a[0]))[0] == 'arg' and ops[1 - i][0] == 'c':
                                sub = (f.root(f.path(y.a[0]))[1], tuple(f.path(y.a[0])[1]), pred, int(ops[1 - i][1]))
            if sub is None:
                ck.violation(R, f.name, 'assert (%s)' % text, '%s asserts "%s", which is neither a confirmed invariant nor a range condition on an argument that callers discharge: the public matrix API can abort' % (f.name, text), c.loc()); continue
            k, fields, pred, K = sub
            sites = [(g, d) for g in callers.get(f, ()) for d in g.calls(f.name)]
            if not sites:
                ck.ok(R, what, 'entry point with a documented input precondition; no library caller'); continue
            bad = None
            for g, d in sites:
                r = g.root(g.path(d.a[k]))
                if r[0] != 'alloca':
                    bad = (g, d, 'passes a caller-supplied object'); break
                # every store into that local is a sign/zero extension of a <= 32-bit value or a small constant
                for x in g.insts():
                    if x.op == 'store' and g.root(g.path(x.a[1])) == r and g.path(x.a[1])[0][0] != 'load':
                        v = g.v(x.a[0])
                        if x.a[0][0] == 'c' and abs(int(x.a[0][1])) < (1 << 40):
                            continue
                        if v is not None and v.op in ('sext', 'zext') and v.d.get('st') in ('i32', 'i16', 'i8'):
                            continue
                        if g.dominates(x, d):
                            bad = (g, d, 'stores a value wider than 32 bits into the vector'); break
                if bad:
                    break
            if abs(K) < (1 << 33):
                bad = bad or (sites[0][0], sites[0][1], 'bound %d is inside the 32-bit range' % K)
            if bad is None:
                ck.ok(R, what, 'discharged at %d call site(s): the vector holds sign-extended 32-bit values' % len(sites))
            else:
                ck.violation(R, f.name, 'assert (%s)' % text, '%s asserts "%s" but %s %s: the public API can abort' % (f.name, text, bad[0].name, bad[2]), bad[1].loc())
    if n < 10:
        ck.incomplete(R, 'only %d assertions found in %s' % (n, UNIT))


def r2_overflow_reported(ck, P):
    R = ck.rule('C11-R2', 'overflow is reported on every component: point/point_3d compare all three narrowed components, multiply range-tests inside the product loop before the narrowing store, the float conversion range-tests before the cast', floor=8)
    u = P.units[UNIT]
    for name in ('pixman_transform_point', 'pixman_transform_point_3d'):
        f = P.fn(name); ck.saw(f)
        comps = set()
        for x in f.insts():
            if x.op == 'icmp' and x.pred == 'eq':
                sides = []
                for o in x.a:
                    y = f.v(f.strip_casts(o))
                    if y is not None and y.op == 'load':
                        sides.append(f.path(y.a[0]))
                if len(sides) == 2:
                    vec = [p for p in sides if 'pixman_vector.vector' in p[1]]
                    wide = [p for p in sides if 'pixman_vector_48_16.v' in p[1] or any('48_16' in q for q in p[1])]
                    if vec and wide and vec[0][1][-1] == wide[0][1][-1]:
                        comps.add(vec[0][1][-1])
        # the comparisons must decide the return value: the returned phi takes 0 on their false edges (checked by atoms of ret)
        for k in ('[0]', '[1]', '[2]'):
            if k in comps:
                ck.ok(R, '%s compares component %s after narrowing' % (name, k))
            else:
                ck.violation(R, name, 'component ' + k, '%s does not compare component %s of the narrowed result with the 48.16 value: an overflow of that component is returned as a wrapped coordinate with TRUE' % (name, k), '%s:%d' % (UNIT, f.line))
    f = P.fn('pixman_transform_multiply'); ck.saw(f)
    st = [x for x in f.insts() if x.op == 'store' and f.root(f.path(x.a[1]))[0] == 'alloca' and any('pixman_transform.matrix' == q for q in f.path(x.a[1])[1]) and f.v(x.a[0]) is not None and f.v(x.a[0]).op == 'trunc']
    if not st:
        ck.incomplete(R, 'narrowing store of pixman_transform_multiply not found')
    for x in st:
        wide = f.v(x.a[0]).a[0]
        lo = hi = False
        for br, succ in f.guard_edges(x.bb.id):
            if not br.a:
                continue
            cc, pred, ops = f.cond(br.a[0])
            if cc is None or cc.op != 'icmp':
                continue
            if not any(f.strip_casts(o) == f.strip_casts(wide) for o in ops):
                continue
            taken_true = br.d['succ'][0] == succ
            p = pred if taken_true else f.INV.get(pred, pred)
            k = [int(o[1]) for o in ops if o[0] == 'c']
            if k and p in ('sle', 'slt') and k[0] >= (1 << 31) - 1:
                hi = k[0] <= (1 << 31) - 1 if p == 'sle' else k[0] <= (1 << 31)
            if k and p in ('sge', 'sgt') and k[0] <= -(1 << 31) + 1:
                lo = k[0] >= -(1 << 31) if p == 'sge' else k[0] >= -(1 << 31) - 1
        if lo and hi:
            ck.ok(R, 'multiply: narrowing store guarded by min <= v <= max')
        else:
            ck.violation(R, f.name, 'range test before narrowing', 'pixman_transform_multiply narrows the 48.16 accumulator to 16.16 without the %s range test dominating the store: an overflowing product is stored wrapped and TRUE returned' % ('upper and lower' if not (lo or hi) else 'upper' if not hi else 'lower'), x.loc())
    f = P.fn('pixman_transform_from_pixman_f_transform'); ck.saw(f)
    casts = [x for x in f.insts() if x.op == 'fptosi']
    if not casts:
        ck.incomplete(R, 'no float-to-fixed cast found in pixman_transform_from_pixman_f_transform')
    for x in casts:
        lo = hi = False
        for br, succ in f.guard_edges(x.bb.id):
            if not br.a:
                continue
            y = f.v(br.a[0])
            if y is not None and y.op == 'fcmp':
                taken_true = br.d['succ'][0] == succ
                # `d > U` refused (false edge continues) or `d <= U` required (true edge continues): an upper bound either way;
                # the exact bounds are decided by C11-R6
                if (y.pred in ('ogt', 'oge', 'ugt', 'uge') and not taken_true) or (y.pred in ('olt', 'ole', 'ult', 'ule') and taken_true):
                    hi = True
                if (y.pred in ('olt', 'ole', 'ult', 'ule') and not taken_true) or (y.pred in ('ogt', 'oge', 'ugt', 'uge') and taken_true):
                    lo = True
        if lo and hi:
            ck.ok(R, 'from_f_transform: cast guarded by both range tests')
        else:
            ck.violation(R, f.name, 'range test before cast', 'a double is converted to 16.16 without both range tests dominating the conversion (undefined conversion / wrapped value returned with TRUE)', x.loc())


def r3_status_used(ck, P):
    R = ck.rule('C11-R3', 'the result of every pixman_bool_t matrix function called inside the library is tested, returned or stored', floor=15)
    u = P.units[UNIT]
    fallible = {f for f in u.functions.values() if f.dret == 'pixman_bool_t' and f.exported}
    for f in P.functions():
        for c in f.calls():
            g = P.resolve(f, c.callee)
            if g in fallible:
                ck.saw(f)
                if c.d.get('used'):
                    ck.ok(R, '%s: %s' % (f.name, g.name))
                else:
                    ck.violation(R, f.name, 'ignored result of ' + g.name, '%s ignores the overflow/singularity status of %s and goes on with an unspecified matrix or vector' % (f.name, g.name), c.loc())


def r4_wide_products(ck, P):
    R = ck.rule('C11-R4', '64-bit accumulations in the matrix unit widen an operand before multiplying (no 32-bit product hidden under a widening cast)', floor=10)
    u = P.units[UNIT]
    for f in u.functions.values():
        for x in f.insts():
            if x.op in ('sext', 'zext') and x.ty == 'i64':
                src = f.v(x.a[0])
                if src is not None and src.op == 'mul' and src.ty == 'i32':
                    ck.saw(f)
                    ck.violation(R, f.name, 'product at %s' % x.loc().split(':')[0], '%s multiplies in 32 bits and widens the product afterwards: the product of two 16.16 values overflows before it is widened' % f.name, x.loc())
            elif x.op == 'mul' and x.ty == 'i64':
                ck.saw(f)
                ck.ok(R, '%s: 64-bit product at %s' % (f.name, x.loc()))


def r5_rounding_siblings(ck, P):
    R = ck.rule('C11-R5', 'the 16.16 product roundings all add 0x8000 before shifting right by 16', floor=6)
    u = P.units[UNIT]
    for f in u.functions.values():
        if not f.exported:
            continue
        for x in f.insts():
            if x.op == 'ashr' and x.ty == 'i64' and x.a[1][0] == 'c' and int(x.a[1][1]) == 16:
                src = f.v(x.a[0])
                if src is None or src.op != 'add':
                    continue
                k = [int(o[1]) for o in src.a if o[0] == 'c']
                # only roundings of a product/accumulated partial (tmp[i][1] + 0x8000) >> 16
                if not k:
                    continue
                ck.saw(f)
                if k[0] == 0x8000:
                    ck.ok(R, '%s: (+0x8000) >> 16 at %s' % (f.name, x.loc()))
                else:
                    ck.violation(R, f.name, 'rounding constant', '%s rounds a 16.16 product with +%#x before >> 16; its siblings use +0x8000 (round to nearest)' % (f.name, k[0]), x.loc())


def _fc(o):
    """exact value of a floating constant operand ['fc', text, hexbits]"""
    import struct
    from fractions import Fraction
    h = o[2]
    if len(h) == 16:
        return Fraction(struct.unpack('>d', bytes.fromhex(h))[0])
    if len(h) == 8:
        return Fraction(struct.unpack('>f', bytes.fromhex(h))[0])
    return Fraction(float(o[1]))


def _affine(f, o, depth=0):
    """(scale, offset, base operand) of a double value that is scale*base + offset up to a final rounding to integer (floor/ceil/rint)"""
    from fractions import Fraction
    if depth > 12:
        return None
    if o[0] == 'fc':
        return (Fraction(0), _fc(o), None)
    x = f.v(o)
    if x is None:
        return (Fraction(1), Fraction(0), o)
    if x.op in ('fpext', 'fptrunc'):
        return _affine(f, x.a[0], depth + 1)
    if x.op == 'call' and isinstance(x.callee, str) and x.callee.split('.')[:2] in (['llvm', 'floor'], ['llvm', 'ceil'], ['llvm', 'rint'], ['llvm', 'round'], ['llvm', 'nearbyint']):
        r = _affine(f, x.a[0], depth + 1)
        return r and (r[0], r[1], r[2], x.callee.split('.')[1])
    if x.op == 'call' and isinstance(x.callee, str) and x.callee in ('floor', 'ceil', 'rint', 'round'):
        r = _affine(f, x.a[0], depth + 1)
        return r and (r[0], r[1], r[2], x.callee)
    if x.op == 'call' and isinstance(x.callee, str) and x.callee.startswith('llvm.fmuladd'):
        a, b, c = (_affine(f, y, depth + 1) for y in x.a[:3])
        if not (a and b and c):
            return None
        if a[2] is None:
            a, b = b, a
        if b[2] is not None or c[2] is not None:
            return None
        return (a[0] * b[1], a[1] * b[1] + c[1], a[2])
    if x.op in ('fmul', 'fadd', 'fsub'):
        a, b = _affine(f, x.a[0], depth + 1), _affine(f, x.a[1], depth + 1)
        if not (a and b):
            return None
        if x.op == 'fmul':
            if a[2] is None:
                a, b = b, a
            if b[2] is not None:
                return None
            return (a[0] * b[1], a[1] * b[1], a[2])
        sgn = 1 if x.op == 'fadd' else -1
        if a[2] is not None and b[2] is not None:
            return None
        base = a[2] if a[2] is not None else b[2]
        return (a[0] + sgn * b[0], a[1] + sgn * b[1], base)
    return (Fraction(1), Fraction(0), o)


def r6_float_to_fixed_guarded(ck, P):
    """every double -> integer conversion of the matrix unit is preceded by range guards that keep the converted value representable"""
    from fractions import Fraction
    R = ck.rule('C11-R6', 'every floating-point to integer conversion in pixman-matrix.c converts scale*d + offset of a value d whose guards (comparisons with constants on every path to the conversion) keep the result inside the integer type: no wrapped fixed-point entry is stored', floor=1)
    u = P.units.get('pixman-matrix.c')
    if u is None:
        ck.incomplete(R, 'pixman-matrix.c not in the build'); return
    for f in u.functions.values():
        for x in f.insts():
            if x.op not in ('fptosi', 'fptoui'):
                continue
            ck.saw(f)
            bits = _narrowest_use(f, x); signed = x.op == 'fptosi'
            lo_t = Fraction(-(1 << (bits - 1))) if signed else Fraction(0)
            hi_t = Fraction((1 << (bits - 1)) - 1) if signed else Fraction((1 << bits) - 1)
            af = _affine(f, x.a[0])
            if af is None or af[2] is None or af[0] <= 0:
                ck.incomplete(R, '%s: conversion at %s is not scale*d + offset of one value' % (f.name, x.loc())); continue
            scale, off, base = af[0], af[1], af[2]
            rnd = af[3] if len(af) > 3 else 'trunc'
            lo = None; hi = None     # accepted d: lo[0] (<|<=) d (<|<=) hi[0]; second member True = closed
            nan_excluded = False     # an ordered comparison that holds, or an unordered one that fails, is false / true for NaN
            for t, s_ in f.guard_edges(x.bb.id):
                if t.op != 'br' or not t.a:
                    continue
                c = f.v(t.a[0])
                if c is None or c.op != 'fcmp':
                    continue
                a0, a1 = c.a
                pred = c.d['p']
                # any comparison of d that is ordered and holds, or unordered and fails, on the way here excludes NaN (d != d, isnan)
                if base in (a0, a1) and ((pred[0] == 'o' and pred != 'one' and t.d['succ'][0] == s_) or (pred in ('ord',) and t.d['succ'][0] == s_) or (pred[0] == 'u' and t.d['succ'][0] != s_)):
                    nan_excluded = True
                if a0[0] == 'fc' and a1 == base:
                    a0, a1 = a1, a0
                    pred = {'olt': 'ogt', 'ole': 'oge', 'ogt': 'olt', 'oge': 'ole', 'ult': 'ugt', 'ule': 'uge', 'ugt': 'ult', 'uge': 'ule'}.get(pred, pred)
                if a0 != base or a1[0] != 'fc':
                    continue
                k = _fc(a1)
                holds = t.d['succ'][0] == s_       # the comparison is true on the edge towards the conversion
                if (pred[0] == 'o' and holds) or (pred[0] == 'u' and not holds):
                    nan_excluded = True
                p = pred[1:]
                # on this edge: d p k holds (or its negation)
                if not holds:
                    p = {'lt': 'ge', 'le': 'gt', 'gt': 'le', 'ge': 'lt'}.get(p)
                if p in ('ge', 'gt'):
                    cand = (k, p == 'ge')
                    if lo is None or cand[0] > lo[0]:
                        lo = cand
                elif p in ('le', 'lt'):
                    cand = (k, p == 'le')
                    if hi is None or cand[0] < hi[0]:
                        hi = cand
            where = '%s (%s)' % (f.name, x.loc())
            if lo is None or hi is None:
                ck.violation(R, f.name, 'unguarded conversion to i%d' % bits, '%s converts a double to i%d with %s: the value is not bounded %s, so an out-of-range entry is stored wrapped instead of being refused' % (f.name, bits, 'no range guard' if lo is None and hi is None else 'a one-sided guard', 'below' if lo is None else 'above'), x.loc())
                continue
            if not nan_excluded:
                ck.violation(R, f.name, 'NaN reaches the conversion to i%d' % bits, '%s guards its conversion of a double to i%d (%s) only by comparisons that are false for NaN on the side that rejects (d < lo || d > hi): a NaN entry passes both, the conversion is undefined (0x80000000 on x86) and the call reports success with a wrapped entry' % (f.name, bits, x.loc()), x.loc())
                continue
            # extreme converted values over the accepted interval (scale > 0); rounding to integer never leaves [floor(v), ceil(v)]
            import math
            vmax = scale * hi[0] + off; vmin = scale * lo[0] + off
            top = math.floor(vmax) if rnd in ('floor', 'trunc') else math.ceil(vmax)
            if not hi[1] and vmax == math.floor(vmax) and rnd in ('floor', 'trunc'):
                top = vmax - 1                       # open bound exactly on an integer: that integer is not reached
            bot = math.floor(vmin) if rnd in ('floor',) else math.ceil(vmin) if rnd in ('ceil',) else math.floor(vmin)
            if top > hi_t or bot < lo_t:
                ck.violation(R, f.name, 'conversion to i%d out of range' % bits,
                             '%s accepts d in %s%s, %s%s and converts %s(d*%s + %s): the result reaches %s, outside [%s, %s]; such entries are stored wrapped instead of being refused' % (
                                 f.name, '[' if lo[1] else '(', float(lo[0]), float(hi[0]), ']' if hi[1] else ')', rnd, float(scale), float(off), int(top) if top > hi_t else int(bot), int(lo_t), int(hi_t)), x.loc())
            else:
                ck.ok(R, where, 'd in %s%s, %s%s -> %s(d*%s+%s) within i%d' % ('[' if lo[1] else '(', float(lo[0]), float(hi[0]), ']' if hi[1] else ')', rnd, float(scale), float(off), bits))


def _narrowest_use(f, x, seen=None):
    """width the converted value finally keeps: the narrowest truncation among its transitive users through phi/select/min-max compares"""
    seen = seen if seen is not None else set()
    if x.i in seen:
        return int(x.ty[1:]) if x.ty.startswith('i') else 64
    seen.add(x.i)
    w = int(x.ty[1:]) if x.ty.startswith('i') and x.ty[1:].isdigit() else 64
    for y in f.users(x):
        if y.op == 'trunc':
            w = min(w, int(y.ty[1:]))
        elif y.op in ('phi', 'select'):
            w = min(w, _narrowest_use(f, y, seen))
    return w


def r7_whole_w_tested(ck, P):
    """a shortcut that skips the division by w must look at all of w"""
    R = ck.rule('C11-R7', 'in the 31.16 point transform the homogeneous coordinate w is held as an integer part and a 16-bit fraction; every shortcut taken on the integer part being a particular constant (w == 1: no division, w == 0: refuse) is taken only when the fraction is tested to be zero as well', floor=2)
    f = P.fn('pixman_transform_point_31_16', required=False)
    if f is None:
        ck.incomplete(R, 'pixman_transform_point_31_16 not found'); return
    ck.saw(f)
    di = [x for x in f.insts() if x.dv == 'divint' and x.op not in ('alloca',)]
    df = [x for x in f.insts() if x.dv == 'divfrac' and x.op not in ('alloca',)]
    if not di or not df:
        ck.incomplete(R, 'the integer/fraction split of w (divint, divfrac) is no longer recognisable'); return
    DI = {x.i for x in di}; DF = {x.i for x in df}

    def is_test(c, ids, k=None):
        if c is None or c.op != 'icmp' or c.d['p'] != 'eq':
            return False
        def chain_hits(o):
            for _ in range(8):
                if o[0] != 'v':
                    return False
                if o[1] in ids:
                    return True
                y = f.by_id[o[1]]
                if y.op in ('zext', 'sext', 'trunc', 'freeze', 'bitcast'):
                    o = y.a[0]; continue
                return False
            return False
        if not any(chain_hits(o) for o in c.a):
            return False
        cs = [int(o[1]) for o in c.a if o[0] == 'c']
        return bool(cs) and (k is None or cs[0] == k)

    n = 0
    for b in f.blocks:
        ge = f.guard_edges(b.id)
        ints = [(t, s_) for t, s_ in ge if t.a and is_test(f.v(t.a[0]), DI) and t.d['succ'][0] == s_]
        if not ints:
            continue
        if not any(x.op in ('store', 'call', 'ret') and not (x.op == 'call' and (x.callee or '').startswith('llvm.dbg')) for x in b.insts):
            continue                         # a block that only goes on testing
        fr = [(t, s_) for t, s_ in ge if t.a and is_test(f.v(t.a[0]), DF, 0) and t.d['succ'][0] == s_]
        n += 1
        k = [int(o[1]) for o in f.v(ints[0][0].a[0]).a if o[0] == 'c'][0]
        if fr:
            ck.ok(R, 'block %d: shortcut for integer part == %d also requires fraction == 0' % (b.id, k))
        else:
            ck.violation(R, f.name, 'shortcut on the integer part of w == %d' % k, 'pixman_transform_point_31_16 takes the w == %s shortcut whenever the integer part of w equals %d, without testing the 16-bit fraction: for w slightly above that value the division is skipped and the result is off by value * 2^-16 while TRUE is returned' % ('1.0' if k == 65536 else str(k), k), b.insts[0].loc())
    if n == 0:
        ck.incomplete(R, 'no shortcut on the integer part of w found')


def r8_forward_reverse_order(ck, P):
    """sibling agreement of scale / rotate / translate (fixed and floating): which side the elementary matrix is applied on"""
    R = ck.rule('C11-R8', 'every function that updates a (forward, reverse) pair of transforms multiplies the elementary matrix on the left of forward (forward = T * forward) and on the right of reverse (reverse = reverse * T^-1), so that reverse stays the inverse of forward', floor=8)
    u = P.units.get('pixman-matrix.c')
    n = 0
    for f in (u.functions.values() if u else []):
        pn = [p[0] for p in f.params]
        if 'forward' not in pn or 'reverse' not in pn:
            continue
        fi, ri = pn.index('forward'), pn.index('reverse')
        for c in f.calls():
            if not (isinstance(c.callee, str) and c.callee.endswith('_multiply')) or len(c.a) < 3:
                continue
            args = [f.strip_casts(o) for o in c.a[:3]]
            dst = args[0]
            if dst[:2] == ['a', fi]:
                n += 1; ck.saw(f)
                if args[2][:2] == ['a', fi] and args[1][0] == 'v' and f.by_id[args[1][1]].op == 'alloca':
                    ck.ok(R, '%s: forward = T * forward' % f.name)
                else:
                    ck.violation(R, f.name, 'order of the forward product', '%s does not form forward = T * forward (the elementary matrix on the left): forward and reverse no longer describe inverse maps' % f.name, c.loc())
            elif dst[:2] == ['a', ri]:
                n += 1; ck.saw(f)
                if args[1][:2] == ['a', ri] and args[2][0] == 'v' and f.by_id[args[2][1]].op == 'alloca':
                    ck.ok(R, '%s: reverse = reverse * T' % f.name)
                else:
                    ck.violation(R, f.name, 'order of the reverse product', '%s does not form reverse = reverse * T^-1 (the elementary inverse on the right): for a reverse that already holds a translation or a non-uniform scale it is no longer the inverse of forward' % f.name, c.loc())
    if n == 0:
        ck.incomplete(R, 'no (forward, reverse) updater found in pixman-matrix.c')


def r10_affine_helper_precondition(ck, P):
    """who-may-call with a precondition: the affine point helper ignores the vector's third component and the matrix's bottom row and
    returns w = 1.  A caller that wants the full product may use it only where the vector's w is known to be 1."""
    R = ck.rule('C11-R10', 'every call inside the library of the 31.16 point helpers uses the helper that computes what the caller returns: the general 3x3 product (_3d) or the projective point (_31_16) unconditionally; the affine helper - which ignores vector[2] and matrix row 2 and returns w = 1 - only under a guard that the vector\'s third component equals pixman_fixed_1 (a guard on the matrix alone is not enough)', floor=2)
    n = 0
    for f in P.functions():
        for c in f.calls():
            if not (c.callee or '').startswith('pixman_transform_point_31_16'):
                continue
            n += 1; ck.saw(f)
            where = '%s -> %s at %s' % (f.name, c.callee, c.loc())
            if not c.callee.endswith('_affine'):
                ck.ok(R, where); continue
            ok = False
            for t, s in f.guard_edges(c.bb.id):
                cc = f.v(t.a[0]) if t.a else None
                if cc is None or cc.op != 'icmp' or cc.d['p'] not in ('eq', 'ne'):
                    continue
                if (cc.d['p'] == 'eq') != (t.d['succ'][0] == s):
                    continue
                k = [a for a in cc.a if a[0] == 'c' and int(a[1]) == 65536]
                o = [a for a in cc.a if not (a[0] == 'c')]
                if not k or len(o) != 1:
                    continue
                y = f.v(o[0])
                while y is not None and y.op in ('sext', 'zext', 'trunc'):
                    y = f.v(y.a[0])
                if y is not None and y.op == 'load':
                    p = f.path(y.a[0])
                    if p[1] and p[1][-1] == '[2]' and len(p[1]) >= 2 and 'vector' in str(p[1][-2]).lower() and 'transform' not in str(p):
                        ok = True
            if ok:
                ck.ok(R, where, 'guarded by vector[2] == 1.0')
            else:
                ck.violation(R, f.name, 'call of %s' % c.callee, '%s hands its vector to the affine helper without having established that the vector\'s third component is 1.0: the helper neither scales the translation column by w nor returns the caller\'s w, so for w != 1 a wrong product is returned with TRUE' % f.name, c.loc())
    if n == 0:
        ck.incomplete(R, 'no call of a pixman_transform_point_31_16* helper found inside the library')


def r11_product_indices(ck, P):
    """T-TAB over the expression trees: in a matrix-vector product every term multiplies matrix[i][j] with component j of the vector
    (its integer part, its fraction, or the whole component) - the column index of the matrix equals the index of the vector."""
    R = ck.rule('C11-R11', 'in every function of pixman-matrix.c that multiplies a pixman_transform / pixman_f_transform with a vector, each product pairs matrix[i][j] with vector component j (through shifts, masks and widenings): the column index equals the component index in every term, for the integer and for the fractional half of a coordinate alike', floor=20)
    u = P.units.get('pixman-matrix.c')
    if u is None:
        raise AnalysisBroken('pixman-matrix.c not compiled')
    def classify(f, o, d=0):
        """('m', i, j) | ('v', k) | None for the leaf a factor derives from"""
        y = f.v(o)
        if y is None or d > 8:
            return None
        if y.op == 'load':
            p = f.path(y.a[0]); st = [str(s) for s in p[1]]
            idx = [(int(s[1:-1]) if s[1:-1].lstrip('-').isdigit() else None) for s in st if s.startswith('[') and s.endswith(']')]
            names = ' '.join(st)
            if ('transform.matrix' in names or 'transform.m' in names) and len(idx) >= 2 and idx[-1] is not None:
                return ('m', idx[-2] if idx[-2] is not None else -1, idx[-1])       # the row may be a loop variable, the column is what matters
            if ('vector.vector' in names or 'vector_48_16_t.v' in names or 'vector.v' in names) and len(idx) >= 1 and idx[-1] is not None and 'transform' not in names:
                return ('v', idx[-1])
            return None
        if y.op in ('sext', 'zext', 'trunc', 'ashr', 'lshr', 'and', 'fpext', 'fptrunc', 'sitofp'):
            return classify(f, y.a[0], d + 1)
        return None
    for fn, f in sorted(u.functions.items()):
        for x in f.insts():
            if x.op not in ('mul', 'fmul'):
                continue
            a, b = classify(f, x.a[0]), classify(f, x.a[1])
            if a is None or b is None or {a[0], b[0]} != {'m', 'v'}:
                continue
            m, v = (a, b) if a[0] == 'm' else (b, a)
            ck.saw(f)
            row = 'i' if m[1] < 0 else str(m[1])
            where = '%s %s: matrix[%s][%d] * v[%d]' % (fn, x.loc(), row, m[2], v[1])
            if m[2] == v[1]:
                ck.ok(R, where)
            else:
                ck.violation(R, fn, 'term at %s' % x.loc(), '%s multiplies matrix[%s][%d] with component %d of the vector: the term belongs to column %d, so the product returned is not the matrix applied to the vector whenever that part of component %d is non-zero' % (fn, row, m[2], v[1], v[1], v[1]), x.loc())


def r12_inverse_guarded(ck, P):
    """T-GRD: a helper that divides by its argument is only called where that argument is known to be non-zero - for that argument by itself."""
    R = ck.rule('C11-R12', 'every call of a helper that divides by its parameter without testing it (fixed_inverse: 1/x in 16.16) is dominated by a test that this very argument is non-zero: a guard that only excludes "all factors are zero" lets a single zero factor through to the division (SIGFPE) and reports success for a non-invertible scale', floor=2)
    u = P.units.get('pixman-matrix.c')
    if u is None:
        raise AnalysisBroken('pixman-matrix.c not compiled')
    # helpers: single-block functions whose parameter is the divisor of an sdiv/udiv
    helpers = {}
    for fn, f in u.functions.items():
        for x in f.insts():
            if x.op in ('sdiv', 'udiv'):
                y = f.v(x.a[1]); o = x.a[1]
                while y is not None and y.op in ('sext', 'zext', 'trunc'):
                    o = y.a[0]; y = f.v(o)
                def _tests_param(t, k):
                    for q in t.a:
                        z = f.v(q)
                        while z is not None and z.op in ('sext', 'zext', 'trunc'):
                            q = z.a[0]; z = f.v(q)
                        if list(q) == ['a', k]:
                            return True
                    return False
                if o[0] == 'a' and not any(t.op == 'icmp' and _tests_param(t, o[1]) for t in f.insts()):
                    helpers[fn] = o[1]
    n = 0
    for fn, f in sorted(u.functions.items()):
        for c in f.calls():
            if c.callee not in helpers:
                continue
            n += 1; ck.saw(f)
            arg = c.a[helpers[c.callee]]
            base = arg
            y = f.v(base)
            while y is not None and y.op in ('sext', 'zext', 'trunc'):
                base = y.a[0]; y = f.v(base)
            ok = False
            for t, s in f.guard_edges(c.bb.id):
                cc = f.v(t.a[0]) if t.a else None
                if cc is None or cc.op != 'icmp' or cc.d['p'] not in ('eq', 'ne'):
                    continue
                nonzero_edge = (cc.d['p'] == 'ne') == (t.d['succ'][0] == s)
                ops = []
                for q in cc.a:
                    z = f.v(q)
                    while z is not None and z.op in ('sext', 'zext', 'trunc'):
                        q = z.a[0]; z = f.v(q)
                    ops.append(q)
                if nonzero_edge and base in ops and any(q[0] == 'c' and int(q[1]) == 0 for q in ops):
                    ok = True
            where = '%s -> %s (%s) at %s' % (fn, c.callee, f.params[base[1]][0] if base[0] == 'a' else 'value', c.loc())
            if ok:
                ck.ok(R, where)
            else:
                ck.violation(R, fn, 'call of %s at %s' % (c.callee, c.loc()), '%s calls %s, which divides by its argument, on a path on which that argument has not been tested against 0 by itself: with exactly this factor zero the division traps, and without the reverse matrix the function reports success for a scale that has no inverse' % (fn, c.callee), c.loc())
    if n == 0:
        ck.incomplete(R, 'no call of a dividing helper found in pixman-matrix.c')



def r13_narrowed_results_range_tested(ck, P):
    """T-GRD: a 64-bit quotient, product or sum that becomes a 16.16 value is narrowed only after it has been compared with both ends of
    the 32-bit range (point / point_3d narrow first and compare back: C11-R2)."""
    R = ck.rule('C11-R13', 'in pixman-matrix.c every truncation of a 64-bit arithmetic result (quotient, product, sum, or a phi of them) to 32 bits is dominated by a comparison of that value with INT32_MAX and one with INT32_MIN whose failing sides do not reach the truncation: 1/sx for |sx| <= 2/65536 and an overflowing matrix product are reported with FALSE instead of being stored wrapped', floor=2)
    u = P.units.get(UNIT)
    if u is None:
        raise AnalysisBroken('pixman-matrix.c not compiled')
    n = 0
    for fn, f in sorted(u.functions.items()):
        for x in f.insts():
            if x.op != 'trunc' or x.ty != 'i32':
                continue
            src = f.v(x.a[0])
            if src is None or src.ty != 'i64' or src.op not in ('sdiv', 'udiv', 'mul', 'add', 'sub', 'shl', 'phi'):
                continue
            n += 1; ck.saw(f)
            lo = hi = False
            for br, succ in f.guard_edges(x.bb.id):
                if not br.a:
                    continue
                cc, pred, ops = f.cond(br.a[0])
                if cc is None or cc.op != 'icmp' or not any(f.strip_casts(o) == f.strip_casts(x.a[0]) for o in ops):
                    continue
                taken_true = br.d['succ'][0] == succ
                p = pred if taken_true else f.INV.get(pred, pred)
                k = [int(o[1]) for o in ops if o[0] == 'c']
                if not k:
                    continue
                if ops[0][0] == 'c':
                    p = {'slt': 'sgt', 'sgt': 'slt', 'sle': 'sge', 'sge': 'sle'}.get(p, p)
                if p == 'sle' and k[0] <= (1 << 31) - 1 or p == 'slt' and k[0] <= (1 << 31):
                    hi = True
                if p == 'sge' and k[0] >= -(1 << 31) or p == 'sgt' and k[0] >= -(1 << 31) - 1:
                    lo = True
            where = '%s: narrowing of a %s at %s' % (fn, src.op, x.loc())
            if lo and hi:
                ck.ok(R, where, 'min <= v <= max established')
            else:
                ck.violation(R, fn, 'narrowing at %s' % x.loc(), '%s truncates the 64-bit result of a %s to 32 bits without the %s range test on the way: a value outside 16.16 is stored wrapped and success is reported (1/sx for sx = 1/65536 becomes 0)' % (fn, src.op, 'upper and lower' if not (lo or hi) else 'upper' if not hi else 'lower'), x.loc())
    if n == 0:
        raise AnalysisBroken('C11-R13: no narrowing of a 64-bit arithmetic result found in pixman-matrix.c')


def r14_negation_excludes_minimum(ck, P):
    """T-GRD: -x of a caller-supplied 16.16 value is not representable for the most negative value; a function that can report failure
    excludes that value before it negates."""
    R = ck.rule('C11-R14', 'in every exported function of pixman-matrix.c that returns a status, a parameter is negated (0 - x in 32 bits), or handed to a helper that negates it, only after a test that it is not the most negative 16.16 value: otherwise the reverse transform receives the un-negated value and TRUE is returned', floor=3)
    u = P.units.get(UNIT)
    if u is None:
        raise AnalysisBroken('pixman-matrix.c not compiled')
    # helpers that negate a parameter without being able to report it (void init functions)
    neg_params = {}
    for fn, f in u.functions.items():
        for x in f.insts():
            if x.op == 'sub' and x.ty == 'i32' and x.a[0][0] == 'c' and int(x.a[0][1]) == 0 and x.a[1][0] == 'a':
                neg_params.setdefault(fn, set()).add(x.a[1][1])
    n = 0
    for fn, f in sorted(u.functions.items()):
        if not f.exported or f.type.startswith('void '):
            continue
        sites = []
        for x in f.insts():
            if x.op == 'sub' and x.ty == 'i32' and x.a[0][0] == 'c' and int(x.a[0][1]) == 0 and x.a[1][0] == 'a':
                sites.append((x, x.a[1][1], 'negated'))
            if x.op == 'call' and x.callee in neg_params:
                for k in neg_params[x.callee]:
                    if k < len(x.a) and x.a[k][0] == 'a':
                        sites.append((x, x.a[k][1], 'handed to %s, which negates it' % x.callee))
        for x, k, how in sites:
            n += 1; ck.saw(f)
            ok = False
            for br, succ in f.guard_edges(x.bb.id):
                if not br.a:
                    continue
                cc, pred, ops = f.cond(br.a[0])
                if cc is None or cc.op != 'icmp' or pred not in ('eq', 'ne'):
                    continue
                if not any(list(f.strip_casts(o)) == ['a', k] for o in ops):
                    continue
                if not any(o[0] == 'c' and int(o[1]) == -(1 << 31) for o in ops):
                    continue
                if (pred == 'ne') == (br.d['succ'][0] == succ):
                    ok = True
            pn = f.params[k][0] or 'parameter %d' % k
            where = '%s: %s %s at %s' % (fn, pn, how, x.loc())
            if ok:
                ck.ok(R, where, 'minimum excluded')
            else:
                ck.violation(R, fn, 'negation of %s' % pn, '%s: %s is %s at %s although no test on that path excludes the most negative 16.16 value, whose negation is not representable: the matrix receives -32768.0 where +32768.0 is meant and TRUE is returned' % (fn, pn, how, x.loc()), x.loc())
    if n == 0:
        raise AnalysisBroken('C11-R14: no negation of a parameter in a status-returning function of pixman-matrix.c found')


def r15_ceil_guarded(ck, P):
    """T-GRD: pixman_fixed_ceil (f) is floor (f + 0xffff), formed in 32 bits; it wraps for f > 0x7fff0000.  In the transform code the
    argument is a transformed coordinate (anything the 16.16 range holds), so the rounding is preceded by a test that excludes those values."""
    R = ck.rule('C11-R15', 'in pixman-matrix.c every rounding up of a 16.16 value (x + 0xffff in 32 bits, the pixman_fixed_ceil idiom) is dominated by a comparison that keeps x at or below 0x7fff0000: above it the sum wraps to the bottom of the range, and pixman_transform_bounds returned TRUE with a box that misses the corner', floor=2)
    u = P.units.get(UNIT)
    if u is None:
        raise AnalysisBroken('pixman-matrix.c not compiled')
    n = 0
    for fn, f in sorted(u.functions.items()):
        for x in f.insts():
            if x.op != 'add' or x.ty != 'i32' or not any(a[0] == 'c' and int(a[1]) == 0xffff for a in x.a):
                continue
            src = [a for a in x.a if a[0] != 'c']
            if len(src) != 1:
                continue
            n += 1; ck.saw(f)
            base = f.strip_casts(src[0])
            ok = False
            # the value may be re-loaded from the same place: compare by access path as well
            def same(o):
                o = f.strip_casts(o)
                if list(o) == list(base):
                    return True
                y, z = f.v(o), f.v(base)
                return y is not None and z is not None and y.op == 'load' and z.op == 'load' and f.path(y.a[0]) == f.path(z.a[0])
            for br, succ in f.guard_edges(x.bb.id):
                if not br.a:
                    continue
                cc, pred, ops = f.cond(br.a[0])
                if cc is None or cc.op != 'icmp' or not any(same(o) for o in ops):
                    continue
                k = [int(o[1]) for o in ops if o[0] == 'c']
                if not k:
                    continue
                taken = br.d['succ'][0] == succ
                p = pred if taken else f.INV.get(pred, pred)
                if ops[0][0] == 'c':
                    p = {'slt': 'sgt', 'sgt': 'slt', 'sle': 'sge', 'sge': 'sle'}.get(p, p)
                if (p == 'sle' and k[0] <= 0x7fff0000) or (p == 'slt' and k[0] <= 0x7fff0001):
                    ok = True
            where = '%s: rounding up at %s' % (fn, x.loc())
            if ok:
                ck.ok(R, where, 'x <= 0x7fff0000 established')
            else:
                ck.violation(R, fn, 'rounding up at %s' % x.loc(), '%s rounds a 16.16 value up by adding 0xffff in 32 bits without a test on the way that keeps the value at or below 0x7fff0000: a transformed coordinate in (32767.0, 32768.0) wraps to -32768.0 and the result is reported as valid' % fn, x.loc())
    if n == 0:
        raise AnalysisBroken('C11-R15: no rounding up (x + 0xffff) found in pixman-matrix.c')


def r16_elementary_updates_are_products(ck, P):
    """T-WHO with a licensed exception: pixman_transform_scale / rotate / translate update the caller's forward and reverse matrices with
    the matrix product (pixman_transform_multiply).  A store straight into an entry of such a matrix is the same thing only where the
    bottom row is (0, 0, 1) - the guards on the path have to say so for all three entries."""
    R = ck.rule('C11-R16', 'in pixman_transform_scale, _rotate and _translate the caller\'s matrices are written by pixman_transform_multiply only, or by a direct store on a path whose guards establish matrix[2][0] == 0, matrix[2][1] == 0 and matrix[2][2] == pixman_fixed_1 of that same matrix: the product with a translation adds tx * matrix[2][2] to the last column (and tx * matrix[2][k] to the others), not tx', floor=6)
    u = P.units.get(UNIT)
    if u is None:
        raise AnalysisBroken('pixman-matrix.c not compiled')
    n = 0
    for fn in ('pixman_transform_scale', 'pixman_transform_rotate', 'pixman_transform_translate'):
        f = u.functions.get(fn)
        if f is None:
            raise AnalysisBroken('C11-R16: %s not found' % fn)
        ck.saw(f)
        mp = [i for i, (pn, pt) in enumerate(f.params) if 'pixman_transform' in pt]
        for k in mp:
            calls = [c for c in f.calls('pixman_transform_multiply') if c.a and list(c.a[0]) == ['a', k]]
            stores = [x for x in f.insts() if x.op == 'store' and f.root(f.path(x.a[1])) == ('arg', k) and 'pixman_transform.matrix' in [str(q) for q in f.path(x.a[1])[1]]]
            pn = f.params[k][0]
            for c in calls:
                n += 1
                ck.ok(R, '%s: %s updated by the matrix product at %s' % (fn, pn, c.loc()))
            for x in stores:
                n += 1
                have = set()
                for t, s_ in f.guard_edges(x.bb.id):
                    if not t.a:
                        continue
                    cc, p, ops = f.cond(t.a[0])
                    if cc is None or cc.op != 'icmp' or p not in ('eq', 'ne') or (p == 'eq') != (t.d['succ'][0] == s_):
                        continue
                    for o in ops:
                        y = f.v(f.strip_casts(o))
                        if y is None or y.op != 'load' or f.root(f.path(y.a[0])) != ('arg', k):
                            continue
                        st = [str(q) for q in f.path(y.a[0])[1]]
                        if 'pixman_transform.matrix' in st and len(st) >= 3 and st[-2] == '[2]':
                            cst = [int(q[1]) for q in ops if q[0] == 'c']
                            if cst and ((st[-1] in ('[0]', '[1]') and cst[0] == 0) or (st[-1] == '[2]' and cst[0] == 65536)):
                                have.add(st[-1])
                where = '%s: direct store into %s at %s' % (fn, pn, x.loc())
                if have >= {'[0]', '[1]', '[2]'}:
                    ck.ok(R, where, 'under bottom row == (0, 0, 1)')
                else:
                    ck.violation(R, fn, 'direct store into %s' % pn, '%s writes an entry of the caller\'s %s matrix directly at %s, on a path that establishes only %s of the bottom row (0, 0, 1): for a matrix with matrix[2][2] != 1 (an affine matrix scaled as a whole is still affine) the product with the elementary matrix differs from the value stored, and its overflow is not the overflow tested' % (fn, pn, x.loc(), sorted(have) or 'nothing'), x.loc())
    if n < 6:
        raise AnalysisBroken('C11-R16: only %d updates of caller matrices found in scale / rotate / translate' % n)


def r17_zero_divisor_always_reported(ck, P, rid='C11-R17'):
    """Must-pass-through inside a branch: a homogeneous coordinate of exactly 0 has no quotient, whatever the numerators are (0 / 0
    included).  On the branch that pixman_transform_point_31_16 takes for a zero divisor, the overflow flag is set on every path -
    not only on the paths where a numerator happens to be positive or negative."""
    R = ck.rule(rid, 'in the projective point transform, every path from the entry of the branch guarded by "integer and fractional part of the divisor are 0" to the read of the overflow flag (or the return) passes a store of TRUE into that flag made in the function itself: a flag that is set only where a numerator is positive or negative lets 0 / 0 - and numerators below half a unit - through as the point (0, 0, 1) with TRUE', floor=1)
    n = 0
    for f in P.functions():
        flag = [x for x in f.insts() if x.op == 'alloca' and x.dv == 'clampflag']
        if not flag:
            continue
        A = flag[0]
        zero_tests = []
        for b in f.blocks:
            t = b.term
            if t.op != 'br' or not t.a:
                continue
            c, p, ops = f.cond(t.a[0])
            if c is None or c.op != 'icmp' or p not in ('eq', 'ne') or len(ops) != 2 or not any(o[0] == 'c' and int(o[1]) == 0 for o in ops):
                continue
            def named(o):
                for _ in range(4):
                    q = f.v(o) if o[0] == 'v' else None
                    if q is None:
                        return None
                    if q.dv in ('divint', 'divfrac'):
                        return q
                    if q.op in ('zext', 'sext', 'trunc') :
                        o = q.a[0]; continue
                    return None
                return None
            y = [named(o) for o in ops if o[0] == 'v']
            if y and y[0] is not None:
                zero_tests.append((t, t.d['succ'][0] if p == 'eq' else t.d['succ'][1], y[0].dv))
        if not zero_tests:
            continue
        # the block entered when both parts are zero: target of a zero edge that is itself guarded by the zero edge of the other part
        Z = None
        for t, s, nm in zero_tests:
            ge = f.guard_edges(s)
            if any((t2, s2) in ge for t2, s2, nm2 in zero_tests if nm2 != nm):
                Z = s
        if Z is None:
            continue
        n += 1; ck.saw(f)
        def sets_flag(q):
            return q.op == 'store' and f.root(f.path(q.a[1])) == ('alloca', A.i) and q.a[0][0] == 'c' and int(q.a[0][1]) != 0
        def reads_flag(q):
            return q.op == 'ret' or (q.op == 'load' and f.root(f.path(q.a[0])) == ('alloca', A.i))
        first = f.blocks[Z].insts[0]
        hit = first if reads_flag(first) else None
        if hit is None and not sets_flag(first):
            hit = f.reach_avoiding(first, sets_flag, reads_flag)
        where = '%s: zero-divisor branch at %s' % (f.name, first.loc())
        if hit is None:
            ck.ok(R, where, 'flag set on every path')
        else:
            ck.violation(R, f.name, 'zero divisor not always reported', '%s has a path through its zero-divisor branch (entered at %s) that reaches the read of the overflow flag at %s without a store of TRUE made in the function: when the numerators round to 0 as well, the call returns TRUE with a point, although no quotient by a zero homogeneous coordinate exists' % (f.name, first.loc(), hit.loc()), hit.loc())
    if n == 0:
        raise AnalysisBroken('%s: the zero-divisor branch of the projective point transform was not found' % rid)


def r18_division_digit_shortcuts_are_strict(ck, P, rid='C11-R18'):
    """Schoolbook long division, digit by digit: digit = dividend / divisor, remainder = dividend % divisor.  A step may be skipped
    (digit 0, remainder = dividend) exactly when dividend < divisor.  With dividend == divisor the digit is 1: a non-strict test loses it,
    and the quotient is returned modulo 2^64 without the overflow flag."""
    R = ck.rule(rid, 'for every digit step of the 128-bit divisions in pixman-matrix.c (a remainder X % D next to the quotient X / D): where the remainder is merged with the undivided X itself (a shortcut that skips the division), the edge that delivers X is guarded by the strict comparison X < D; with X <= D the case X == D stores digit 0 instead of 1 and pixman_transform_point returns TRUE with a wrapped quotient where it must report overflow', floor=3)
    u = P.units.get('pixman-matrix.c')
    if u is None:
        raise AnalysisBroken('%s: pixman-matrix.c not compiled' % rid)
    n = 0
    for fn, f in sorted(u.functions.items()):
        for x in f.insts():
            if x.op != 'urem' or x.ty != 'i64':
                continue
            X, D = x.a
            if not any(q.op == 'udiv' and q.a == x.a for q in f.insts()):
                continue
            n += 1; ck.saw(f)
            where = '%s: digit step at %s' % (fn, x.loc())
            bad = None; short = False
            for ph in f.users(x):
                if ph.op != 'phi':
                    continue
                for a, bb in zip(ph.a, ph.d['bb']):
                    if list(a) != list(X):
                        continue
                    short = True
                    ok = False
                    # the edge bb -> ph.bb, or everything that guards bb
                    edges = set(f.guard_edges(bb))
                    t = f.blocks[bb].term
                    if t.op == 'br' and t.a and len(set(t.d['succ'])) == 2:
                        edges.add((t, ph.bb.id))
                    for t2, s2 in edges:
                        if t2.op != 'br' or not t2.a:
                            continue
                        c, p, ops = f.cond(t2.a[0])
                        if c is None or c.op != 'icmp' or len(ops) != 2:
                            continue
                        eff = p if t2.d['succ'][0] == s2 else f.INV.get(p, p)
                        if list(ops[0]) == list(X) and list(ops[1]) == list(D) and eff == 'ult':
                            ok = True
                        if list(ops[0]) == list(D) and list(ops[1]) == list(X) and eff == 'ugt':
                            ok = True
                    if not ok:
                        bad = ph
            if bad is not None:
                ck.violation(R, fn, 'division digit shortcut', '%s skips the division of a digit step (%s) and keeps the undivided value as the remainder on an edge that is not guarded by the strict test dividend < divisor: when the two are equal the digit is 1, not 0, so the high part of the quotient is lost and the result comes back modulo 2^64 with no overflow reported' % (fn, x.loc()), bad.loc())
            else:
                ck.ok(R, where, 'strict shortcut' if short else 'always divided')
    if n == 0:
        raise AnalysisBroken('%s: no digit step (X / D with X %% D) found in pixman-matrix.c' % rid)


def r19_division_guarded_by_its_zero_test(ck, P, rid='C11-R19'):
    """T-ORD / T-GRD: where a function compares a floating-point value with 0 in order to refuse it (a singular matrix), every division by
    that value lies behind the test.  Dividing first turns 0 into infinity, the test no longer fires, and the singular input is accepted."""
    R = ck.rule(rid, 'in pixman-matrix.c every floating-point division whose divisor is also compared with 0.0 in the same function is reached only through the edge on which that comparison found it non-zero: with det = 1 / det ahead of the test, a singular matrix has det = inf, passes `det == 0`, and pixman_f_transform_invert returns TRUE with a matrix of inf and NaN', floor=1)
    u = P.units.get('pixman-matrix.c')
    if u is None:
        raise AnalysisBroken('%s: pixman-matrix.c not compiled' % rid)
    n = 0
    for fn, f in sorted(u.functions.items()):
        zero_tests = {}
        for t in f.insts():
            if t.op == 'fcmp' and any(a[0] == 'fc' and float(a[1]) == 0.0 for a in t.a):
                other = [a for a in t.a if a[0] == 'v']
                if other:
                    zero_tests.setdefault(other[0][1], []).append(t)
        # the tested value may be re-defined (det = 1 / det): follow the tested values and the values they were computed from
        for d in f.insts():
            if d.op != 'fdiv' or d.a[1][0] != 'v':
                continue
            V = d.a[1][1]
            tests = list(zero_tests.get(V, []))
            # det == 0 tested on the quotient itself (the swapped order): the divisor is an operand of the tested value
            late = [t for vid, ts in zero_tests.items() for t in ts if f.by_id[vid] is d]
            if not tests and not late:
                continue
            n += 1; ck.saw(f)
            ok = False
            for br, s in f.guard_edges(d.bb.id):
                if br.op != 'br' or not br.a:
                    continue
                c = f.v(br.a[0])
                if c in tests:
                    truth = br.d['succ'][0] == s
                    nonzero = (c.pred in ('oeq', 'ueq') and not truth) or (c.pred in ('one', 'une') and truth)
                    if nonzero:
                        ok = True
            where = '%s: division at %s' % (fn, d.loc())
            if ok:
                ck.ok(R, where, 'behind the zero test of its divisor')
            else:
                ck.violation(R, fn, 'division ahead of the zero test', '%s divides by a value (%s) that it compares with 0.0 to refuse singular input, but the division is not behind that test (the test looks at the quotient, or comes later): 1 / 0 is infinity, the comparison with 0 fails, and the function reports success with infinities and NaNs in the result' % (fn, d.loc()), d.loc())
    if n == 0:
        raise AnalysisBroken('%s: no division by a zero-tested value found in pixman-matrix.c' % rid)


def r20_matrix_unit_keeps_no_state(ck, P, rid='C11-R20', unit='pixman-matrix.c', floor=20):
    """Who-may-write: the transform arithmetic is a set of pure functions of their arguments.  Nothing in pixman-matrix.c writes a global
    or thread-local object: a remembered result (a cache keyed on the argument) is only as good as its key, and the in-place idiom
    invert (&m, &m) overwrites the key's source before the key is taken."""
    R = ck.rule(rid, 'no function of pixman-matrix.c stores into a global or thread-local variable, and no such variable that is not constant exists in the unit: with a one-entry cache of the last inversion, an in-place pixman_transform_invert records (inverse -> inverse), and the next inversion of that matrix returns its input as its own inverse with TRUE' + ('' if unit == 'pixman-matrix.c' else ' (applied to %s: a table remembered between calls points into a block the caller owns and may have changed or freed)' % unit), floor=floor)
    u = P.units.get(unit)
    if u is None:
        raise AnalysisBroken('%s: pixman-matrix.c not compiled' % rid)
    n = 0
    for fn, f in sorted(u.functions.items()):
        n += 1; ck.saw(f)
        bad = None
        for x in f.insts():
            if x.op == 'store' and f.root(f.path(x.a[1]))[0] == 'global':
                bad = x
            if x.op == 'call' and isinstance(x.callee, str) and x.callee.startswith(('llvm.memcpy', 'llvm.memmove', 'llvm.memset')) and f.root(f.path(x.a[0]))[0] == 'global':
                bad = x
        if bad is None:
            ck.ok(R, '%s: writes no global' % fn)
        else:
            ck.violation(R, fn, 'state kept in the matrix unit', '%s writes to the global or thread-local object %s (%s): the result of a transform function then depends on earlier calls, not only on its arguments' % (fn, f.root(f.path(bad.a[1] if bad.op == 'store' else bad.a[0]))[1], bad.loc()), bad.loc())
    if n == 0:
        raise AnalysisBroken('%s: no function in pixman-matrix.c' % rid)


def r21_product_elements_are_sums_of_products(ck, P, rid='C11-R21'):
    """T-AGR: every one of the nine elements that pixman_transform_multiply stores is the (range-tested) sum of three products of an
    element of each factor - also in the bottom row.  An element copied from one factor is the product's element only when the other
    factor's row is (0, 0, 1), which an 'affine' test of one factor does not establish for the other."""
    R = ck.rule(rid, 'every value pixman_transform_multiply stores into an element of the result (directly or through its local copy) is computed from multiplications - its slice contains a 64-bit product of two loaded elements - never a bare copy of an element of one factor: copying the bottom row of l when r is affine is wrong as soon as l is projective (l[2][0] or l[2][1] non-zero), and skips the overflow test of that row', floor=1)
    fs = [f for f in P.functions() if f.name == 'pixman_transform_multiply']
    if not fs:
        raise AnalysisBroken('%s: pixman_transform_multiply not found' % rid)
    n = 0
    for f in fs:
        # a block copy into a part of the local result (a row copied from a factor) is a bare copy as well; the final copy of the
        # whole local result into *dst is not: its source is the local result itself
        for x in f.insts():
            if x.op == 'call' and isinstance(x.callee, str) and x.callee.startswith(('llvm.memcpy', 'llvm.memmove', 'memcpy', 'memmove')):
                dpa, spa = f.path(x.a[0]), f.path(x.a[1])
                if 'pixman_transform.matrix' in str(dpa[1]) and f.root(dpa)[0] == 'alloca' and f.root(spa)[0] == 'arg':
                    n += 1; ck.saw(f)
                    ck.violation(R, f.name, 'element of the product copied from a factor', '%s copies part of a factor into the result (%s) instead of computing those elements: the copied row is the product\'s row only for special shapes of the *other* factor, and its overflow test is skipped' % (f.name, x.loc()), x.loc())
        for x in f.insts():
            if x.op != 'store' or x.ty not in ('void',) and False:
                continue
            if x.op != 'store':
                continue
            pa = f.path(x.a[1])
            if 'pixman_transform.matrix' not in str(pa[1]) or f.root(pa)[0] not in ('alloca', 'arg'):
                continue
            if x.a[0][0] != 'v':
                continue
            n += 1; ck.saw(f)
            has_mul = False
            work = [x.a[0]]; seen = set()
            while work:
                o = work.pop()
                y = f.v(o) if o and o[0] == 'v' else None
                if y is None or y.i in seen:
                    continue
                seen.add(y.i)
                if y.op == 'mul' and y.ty == 'i64':
                    has_mul = True; break
                if y.op in ('load', 'call'):
                    continue
                work.extend(q for q in y.a if q)
            where = '%s: element stored at %s' % (f.name, x.loc())
            if has_mul:
                ck.ok(R, where, 'sum of products')
            else:
                ck.violation(R, f.name, 'element of the product copied from a factor', '%s stores an element of the result (%s) that is not computed from any product: it is copied from one of the factors, which equals the product\'s element only for special shapes of the *other* factor' % (f.name, x.loc()), x.loc())
    if n == 0:
        raise AnalysisBroken('%s: no element store found in pixman_transform_multiply' % rid)
