"""Fixed-point transform rules (C11)."""
import re
from collections import defaultdict
from ..build import AnalysisBroken
from . import common

UNIT = 'pixman-matrix.c'

# asserts whose truth needs a value argument the type-range discharge cannot make; each confirmed by reading the code, one reason per entry.
# Keyed by (function, asserted expression): an assertion with another expression at the same place is NOT covered.
CONFIRMED_ASSERTS = {
    ('rounded_udiv_128_by_48', 'div <= ((uint64_t)1 << 48)'):
        'the only caller, rounded_sdiv_128_by_49, passes |div| of a divisor built either from divint in [-2^32, 2^32) (hi32divbits == 0) shifted by 16 plus a 16-bit fraction, '
        'or from fixed_64_16_to_int128 reduced to 48 bits; both magnitudes are <= 2^48',
}


def _assert_text(P, u, c):
    o = c.a[0]
    g = None
    if o[0] == 'ce':
        for q in o[2]:
            if q[0] == 'g':
                g = q[1]
    elif o[0] == 'g':
        g = o[1]
    gg = u.globals.get(g) if g else None
    if gg is None:
        return None
    s = gg.get('init')
    return s.rstrip('\x00') if isinstance(s, str) else None


def r1_no_abort(ck, P):
    R = ck.rule('C11-R1', 'no assertion can fire from the public matrix API: each assert in the matrix unit is discharged by the type range of every caller\'s arguments or is a confirmed invariant', floor=15)
    u = P.units.get(UNIT)
    if u is None:
        raise AnalysisBroken(UNIT + ' not compiled')
    callers = P.callers()
    n = 0
    for f in u.functions.values():
        for c in f.calls('__assert_fail'):
            n += 1; ck.saw(f)
            text = _assert_text(P, u, c) or '?'
            what = '%s: assert (%s)' % (f.name, text)
            if (f.name, text) in CONFIRMED_ASSERTS:
                ck.ok(R, what, 'confirmed invariant: ' + CONFIRMED_ASSERTS[(f.name, text)]); continue
            # assertion on a loaded member of a pointer parameter compared with a constant: discharge at each library call site
            cond_blocks = f.blocks[c.bb.id].pred
            sub = None
            for pb in cond_blocks:
                t = f.blocks[pb].term
                if t.op == 'br' and t.a:
                    cc, pred, ops = f.cond(t.a[0])
                    if cc is not None and cc.op == 'icmp' and len(ops) == 2:
                        for i in (0, 1):
                            y = f.v(f.strip_casts(ops[i]))
                            if y is not None and y.op == 'load' and f.root(f.path(y.a[0]))[0] == 'arg' and ops[1 - i][0] == 'c':
                                sub = (f.root(f.path(y.a[0]))[1], tuple(f.path(y.a[0])[1]), pred, int(ops[1 - i][1]))
            if sub is None:
                ck.violation(R, f.name, 'assert (%s)' % text, '%s asserts "%s", which is neither a confirmed invariant nor a range condition on an argument that callers discharge: the public matrix API can abort' % (f.name, text), c.loc()); continue
            k, fields, pred, K = sub
            sites = [(g, d) for g in callers.get(f, ()) for d in g.calls(f.name)]
            if not sites:
                ck.ok(R, what, 'entry point with a documented input precondition; no library caller'); continue
            bad = None
            for g, d in sites:
                r = g.root(g.path(d.a[k]))
                if r[0] != 'alloca':
                    bad = (g, d, 'passes a caller-supplied object'); break
                # every store into that local is a sign/zero extension of a <= 32-bit value or a small constant
                for x in g.insts():
                    if x.op == 'store' and g.root(g.path(x.a[1])) == r and g.path(x.a[1])[0][0] != 'load':
                        v = g.v(x.a[0])
                        if x.a[0][0] == 'c' and abs(int(x.a[0][1])) < (1 << 40):
                            continue
                        if v is not None and v.op in ('sext', 'zext') and v.d.get('st') in ('i32', 'i16', 'i8'):
                            continue
                        if g.dominates(x, d):
                            bad = (g, d, 'stores a value wider than 32 bits into the vector'); break
                if bad:
                    break
            if abs(K) < (1 << 33):
                bad = bad or (sites[0][0], sites[0][1], 'bound %d is inside the 32-bit range' % K)
            if bad is None:
                ck.ok(R, what, 'discharged at %d call site(s): the vector holds sign-extended 32-bit values' % len(sites))
            else:
                ck.violation(R, f.name, 'assert (%s)' % text, '%s asserts "%s" but %s %s: the public API can abort' % (f.name, text, bad[0].name, bad[2]), bad[1].loc())
    if n < 10:
        ck.incomplete(R, 'only %d assertions found in %s' % (n, UNIT))


def r2_overflow_reported(ck, P):
    R = ck.rule('C11-R2', 'overflow is reported on every component: point/point_3d compare all three narrowed components, multiply range-tests inside the product loop before the narrowing store, the float conversion range-tests before the cast', floor=8)
    u = P.units[UNIT]
    for name in ('pixman_transform_point', 'pixman_transform_point_3d'):
        f = P.fn(name); ck.saw(f)
        comps = set()
        for x in f.insts():
            if x.op == 'icmp' and x.pred == 'eq':
                sides = []
                for o in x.a:
                    y = f.v(f.strip_casts(o))
                    if y is not None and y.op == 'load':
                        sides.append(f.path(y.a[0]))
                if len(sides) == 2:
                    vec = [p for p in sides if 'pixman_vector.vector' in p[1]]
                    wide = [p for p in sides if 'pixman_vector_48_16.v' in p[1] or any('48_16' in q for q in p[1])]
                    if vec and wide and vec[0][1][-1] == wide[0][1][-1]:
                        comps.add(vec[0][1][-1])
        # the comparisons must decide the return value: the returned phi takes 0 on their false edges (checked by atoms of ret)
        for k in ('[0]', '[1]', '[2]'):
            if k in comps:
                ck.ok(R, '%s compares component %s after narrowing' % (name, k))
            else:
                ck.violation(R, name, 'component ' + k, '%s does not compare component %s of the narrowed result with the 48.16 value: an overflow of that component is returned as a wrapped coordinate with TRUE' % (name, k), '%s:%d' % (UNIT, f.line))
    f = P.fn('pixman_transform_multiply'); ck.saw(f)
    st = [x for x in f.insts() if x.op == 'store' and f.root(f.path(x.a[1]))[0] == 'alloca' and any('pixman_transform.matrix' == q for q in f.path(x.a[1])[1]) and f.v(x.a[0]) is not None and f.v(x.a[0]).op == 'trunc']
    if not st:
        ck.incomplete(R, 'narrowing store of pixman_transform_multiply not found')
    for x in st:
        wide = f.v(x.a[0]).a[0]
        lo = hi = False
        for br, succ in f.guard_edges(x.bb.id):
            if not br.a:
                continue
            cc, pred, ops = f.cond(br.a[0])
            if cc is None or cc.op != 'icmp':
                continue
            if not any(f.strip_casts(o) == f.strip_casts(wide) for o in ops):
                continue
            taken_true = br.d['succ'][0] == succ
            p = pred if taken_true else f.INV.get(pred, pred)
            k = [int(o[1]) for o in ops if o[0] == 'c']
            if k and p in ('sle', 'slt') and k[0] >= (1 << 31) - 1:
                hi = k[0] <= (1 << 31) - 1 if p == 'sle' else k[0] <= (1 << 31)
            if k and p in ('sge', 'sgt') and k[0] <= -(1 << 31) + 1:
                lo = k[0] >= -(1 << 31) if p == 'sge' else k[0] >= -(1 << 31) - 1
        if lo and hi:
            ck.ok(R, 'multiply: narrowing store guarded by min <= v <= max')
        else:
            ck.violation(R, f.name, 'range test before narrowing', 'pixman_transform_multiply narrows the 48.16 accumulator to 16.16 without the %s range test dominating the store: an overflowing product is stored wrapped and TRUE returned' % ('upper and lower' if not (lo or hi) else 'upper' if not hi else 'lower'), x.loc())
    f = P.fn('pixman_transform_from_pixman_f_transform'); ck.saw(f)
    casts = [x for x in f.insts() if x.op == 'fptosi']
    if not casts:
        ck.incomplete(R, 'no float-to-fixed cast found in pixman_transform_from_pixman_f_transform')
    for x in casts:
        lo = hi = False
        for br, succ in f.guard_edges(x.bb.id):
            if not br.a:
                continue
            y = f.v(br.a[0])
            if y is not None and y.op == 'fcmp':
                taken_true = br.d['succ'][0] == succ
                if y.pred in ('ogt', 'oge', 'ugt', 'uge') and not taken_true:
                    hi = True
                if y.pred in ('olt', 'ole', 'ult', 'ule') and not taken_true:
                    lo = True
        if lo and hi:
            ck.ok(R, 'from_f_transform: cast guarded by both range tests')
        else:
            ck.violation(R, f.name, 'range test before cast', 'a double is converted to 16.16 without both range tests dominating the conversion (undefined conversion / wrapped value returned with TRUE)', x.loc())


def r3_status_used(ck, P):
    R = ck.rule('C11-R3', 'the result of every pixman_bool_t matrix function called inside the library is tested, returned or stored', floor=15)
    u = P.units[UNIT]
    fallible = {f for f in u.functions.values() if f.dret == 'pixman_bool_t' and f.exported}
    for f in P.functions():
        for c in f.calls():
            g = P.resolve(f, c.callee)
            if g in fallible:
                ck.saw(f)
                if c.d.get('used'):
                    ck.ok(R, '%s: %s' % (f.name, g.name))
                else:
                    ck.violation(R, f.name, 'ignored result of ' + g.name, '%s ignores the overflow/singularity status of %s and goes on with an unspecified matrix or vector' % (f.name, g.name), c.loc())


def r4_wide_products(ck, P):
    R = ck.rule('C11-R4', '64-bit accumulations in the matrix unit widen an operand before multiplying (no 32-bit product hidden under a widening cast)', floor=10)
    u = P.units[UNIT]
    for f in u.functions.values():
        for x in f.insts():
            if x.op in ('sext', 'zext') and x.ty == 'i64':
                src = f.v(x.a[0])
                if src is not None and src.op == 'mul' and src.ty == 'i32':
                    ck.saw(f)
                    ck.violation(R, f.name, 'product at %s' % x.loc().split(':')[0], '%s multiplies in 32 bits and widens the product afterwards: the product of two 16.16 values overflows before it is widened' % f.name, x.loc())
            elif x.op == 'mul' and x.ty == 'i64':
                ck.saw(f)
                ck.ok(R, '%s: 64-bit product at %s' % (f.name, x.loc()))


def r5_rounding_siblings(ck, P):
    R = ck.rule('C11-R5', 'the 16.16 product roundings all add 0x8000 before shifting right by 16', floor=6)
    u = P.units[UNIT]
    for f in u.functions.values():
        if not f.exported:
            continue
        for x in f.insts():
            if x.op == 'ashr' and x.ty == 'i64' and x.a[1][0] == 'c' and int(x.a[1][1]) == 16:
                src = f.v(x.a[0])
                if src is None or src.op != 'add':
                    continue
                k = [int(o[1]) for o in src.a if o[0] == 'c']
                # only roundings of a product/accumulated partial (tmp[i][1] + 0x8000) >> 16
                if not k:
                    continue
                ck.saw(f)
                if k[0] == 0x8000:
                    ck.ok(R, '%s: (+0x8000) >> 16 at %s' % (f.name, x.loc()))
                else:
                    ck.violation(R, f.name, 'rounding constant', '%s rounds a 16.16 product with +%#x before >> 16; its siblings use +0x8000 (round to nearest)' % (f.name, k[0]), x.loc())
