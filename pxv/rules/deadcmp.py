"""Belief rule (DESIGN §7): a test for one particular value states the belief that the value can occur.  Where the value tested is outside
the range the expression can take by construction (an arithmetic shift, a mask, a widening), the test is never true and whatever it
guards - a saturation, a special case - never happens."""
from ..build import AnalysisBroken


def _width(t):
    return int(t[1:]) if t.startswith('i') and t[1:].isdigit() else None


def _src_width(f, o):
    y = f.v(o)
    if y is not None:
        return _width(y.ty)
    if o[0] == 'a':
        return _width(f.params[o[1]][1])
    return None


def value_range(f, o, d=0):
    """signed interval an integer value lies in by construction (shifts by constants, masks, widenings), or None"""
    if o[0] == 'c':
        return (int(o[1]), int(o[1]))
    x = f.v(o)
    if x is None or d > 6:
        return None
    w = _width(x.ty)
    if w is None:
        return None
    full = (-(1 << (w - 1)), (1 << (w - 1)) - 1)
    if x.op == 'ashr' and x.a[1][0] == 'c':
        k = int(x.a[1][1]); r = value_range(f, x.a[0], d + 1) or full
        return (r[0] >> k, r[1] >> k)
    if x.op == 'lshr' and x.a[1][0] == 'c':
        k = int(x.a[1][1])
        return (0, (1 << (w - k)) - 1) if 0 < k < w else None
    if x.op == 'and':
        for a in x.a:
            if a[0] == 'c' and int(a[1]) >= 0:
                return (0, int(a[1]))
        return None
    if x.op in ('zext', 'sext'):
        sw = _src_width(f, x.a[0])
        r = value_range(f, x.a[0], d + 1)
        if r and (x.op == 'sext' or r[0] >= 0):
            return r
        if not sw:
            return None
        return (0, (1 << sw) - 1) if x.op == 'zext' else (-(1 << (sw - 1)), (1 << (sw - 1)) - 1)
    return None


def r_equality_with_unreachable_value(ck, P, rid, floor=150):
    R = ck.rule(rid, 'no equality test in the library compares an expression whose range is fixed by its construction (x >> k arithmetic or logical, x & mask, a widened narrower integer) with a constant outside that range: such a test is never true, so the case it singles out - a saturation at the end of the coordinate range, a special value - is never handled (pixman_sample_floor_y compared pixman_fixed_to_int (i) with 0x8000, which an arithmetic shift of a 32-bit integer by 16 never yields)', floor=floor)
    n = 0
    for f in P.functions():
        for x in f.insts():
            if x.op != 'icmp' or x.d['p'] not in ('eq', 'ne'):
                continue
            cs = [a for a in x.a if a[0] == 'c']; ot = [a for a in x.a if a[0] != 'c']
            if len(cs) != 1 or len(ot) != 1:
                continue
            r = value_range(f, ot[0])
            if r is None:
                continue
            n += 1; ck.saw(f)
            c = int(cs[0][1])
            if r[0] <= c <= r[1]:
                ck.ok(R, '%s: %s' % (f.name, x.loc()))
            else:
                ck.violation(R, f.name, 'equality test at %s' % x.loc(), '%s compares a value that lies in [%d, %d] by construction with %d (%#x): the test is never true, so the case it guards never happens and the code that follows runs for the value it was meant to exclude' % (f.name, r[0], r[1], c, c & 0xffffffff), x.loc())
    if n == 0:
        raise AnalysisBroken('%s: no equality test on a range-bounded expression found' % rid)
