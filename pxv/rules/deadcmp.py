"""Belief rule (DESIGN §7): a test for one particular value states the belief that the value can occur.  Where the value tested is outside
the range the expression can take by construction (an arithmetic shift, a mask, a widening), the test is never true and whatever it
guards - a saturation, a special case - never happens."""
from ..build import AnalysisBroken


def _width(t):
    return int(t[1:]) if t.startswith('i') and t[1:].isdigit() else None


def _src_width(f, o):
    y = f.v(o)
    if y is not None:
        return _width(y.ty)
    if o[0] == 'a':
        return _width(f.params[o[1]][1])
    return None


def value_range(f, o, d=0):
    """signed interval an integer value lies in by construction (shifts by constants, masks, widenings), or None"""
    if o[0] == 'c':
        return (int(o[1]), int(o[1]))
    x = f.v(o)
    if x is None or d > 6:
        return None
    w = _width(x.ty)
    if w is None:
        return None
    full = (-(1 << (w - 1)), (1 << (w - 1)) - 1)
    if x.op == 'ashr' and x.a[1][0] == 'c':
        k = int(x.a[1][1]); r = value_range(f, x.a[0], d + 1) or full
        return (r[0] >> k, r[1] >> k)
    if x.op == 'lshr' and x.a[1][0] == 'c':
        k = int(x.a[1][1])
        return (0, (1 << (w - k)) - 1) if 0 < k < w else None
    if x.op == 'and':
        for a in x.a:
            if a[0] == 'c' and int(a[1]) >= 0:
                return (0, int(a[1]))
        return None
    if x.op in ('zext', 'sext'):
        sw = _src_width(f, x.a[0])
        r = value_range(f, x.a[0], d + 1)
        if r and (x.op == 'sext' or r[0] >= 0):
            return r
        if not sw:
            return None
        return (0, (1 << sw) - 1) if x.op == 'zext' else (-(1 << (sw - 1)), (1 << (sw - 1)) - 1)
    return None


def r_equality_with_unreachable_value(ck, P, rid, floor=150):
    R = ck.rule(rid, 'no equality test in the library compares an expression whose range is fixed by its construction (x >> k arithmetic or logical, x & mask, a widened narrower integer) with a constant outside that range: such a test is never true, so the case it singles out - a saturation at the end of the coordinate range, a special value - is never handled (pixman_sample_floor_y compared pixman_fixed_to_int (i) with 0x8000, which an arithmetic shift of a 32-bit integer by 16 never yields)', floor=floor)
    n = 0
    for f in P.functions():
        for x in f.insts():
            if x.op != 'icmp' or x.d['p'] not in ('eq', 'ne'):
                continue
            cs = [a for a in x.a if a[0] == 'c']; ot = [a for a in x.a if a[0] != 'c']
            if len(cs) != 1 or len(ot) != 1:
                continue
            r = value_range(f, ot[0])
            if r is None:
                continue
            n += 1; ck.saw(f)
            c = int(cs[0][1])
            if r[0] <= c <= r[1]:
                ck.ok(R, '%s: %s' % (f.name, x.loc()))
            else:
                ck.violation(R, f.name, 'equality test at %s' % x.loc(), '%s compares a value that lies in [%d, %d] by construction with %d (%#x): the test is never true, so the case it guards never happens and the code that follows runs for the value it was meant to exclude' % (f.name, r[0], r[1], c, c & 0xffffffff), x.loc())
    if n == 0:
        raise AnalysisBroken('%s: no equality test on a range-bounded expression found' % rid)


def _narrowed(f, o, d=0):
    """(bits, signed) when the value is a widening of a value that was explicitly truncated to `bits` (or loaded from / stored to a
    narrower integer and widened), looking through the widening only"""
    x = f.v(o)
    if x is None or d > 4:
        return None
    if x.op in ('sext', 'zext'):
        y = f.v(x.a[0])
        if y is not None and y.op == 'trunc':
            return (_width(y.ty), x.op == 'sext')
        return None
    return None


_LIMITS = {v for b in (8, 16, 32) for v in (-(1 << (b - 1)), (1 << (b - 1)) - 1, (1 << b) - 1)}


def r_range_test_after_narrowing(ck, P, rid, floor=4):
    """belief rule: an ordered comparison with a constant says the value can lie on either side.  Applied to a value that has already been
    truncated to a narrower integer type (and widened again) whose whole range lies on one side, the test is decided before it is made:
    the overflow it was meant to detect has already wrapped."""
    R = ck.rule(rid, 'no ordered comparison with a limit of an integer type (INT16/INT32 MIN/MAX, UINT8/16/32 MAX) is applied to a value that was truncated to a narrower integer type first when every value of that type lies on the same side of the constant (x = (int16_t) sum; if (x > 32767) ...): a range test has to look at the sum before it is narrowed, otherwise the wrapped coordinate passes as in range', floor=floor)
    n = 0
    for f in P.functions():
        for x in f.insts():
            if x.op != 'icmp' or x.d['p'] in ('eq', 'ne'):
                continue
            cs = [a for a in x.a if a[0] == 'c']; ot = [a for a in x.a if a[0] != 'c']
            if len(cs) != 1 or len(ot) != 1:
                continue
            c = int(cs[0][1])
            if c not in _LIMITS:
                continue
            nw = _narrowed(f, ot[0])
            if nw is None or not nw[0]:
                n += 1; ck.saw(f)
                ck.ok(R, '%s: %s (not narrowed)' % (f.name, x.loc()))
                continue
            bits, signed = nw
            lo, hi = (-(1 << (bits - 1)), (1 << (bits - 1)) - 1) if signed else (0, (1 << bits) - 1)
            p = x.d['p']
            if x.a[0][0] == 'c':
                p = {'slt': 'sgt', 'sgt': 'slt', 'sle': 'sge', 'sge': 'sle', 'ult': 'ugt', 'ugt': 'ult', 'ule': 'uge', 'uge': 'ule'}[p]
            if p[0] == 'u' and (lo < 0 or c < 0):
                continue
            n += 1; ck.saw(f)
            def holds(v):
                return {'lt': v < c, 'gt': v > c, 'le': v <= c, 'ge': v >= c}[p[1:]]
            if holds(lo) == holds(hi):
                ck.violation(R, f.name, 'range test at %s' % x.loc(), '%s compares a value that has been truncated to %d bits (range [%d, %d]) with %d: the outcome is the same for every value of that type, so the test cannot detect the overflow it is written for - the sum has already wrapped when it is tested' % (f.name, bits, lo, hi, c), x.loc())
            else:
                ck.ok(R, '%s: %s' % (f.name, x.loc()))
    if n == 0:
        raise AnalysisBroken('%s: no ordered comparison with an integer type limit found' % rid)
