"""Gradient rules (C13): stop-array sentinel protocol, constructor protocol, sentinel contents per repeat mode."""
from collections import defaultdict
from ..build import AnalysisBroken
from . import common
from .geometry import linear

STOPS = ('gradient.stops', 'pixman_gradient_walker_t.stops')


def _elem_index(f, gep):
    """(constant element offset or None, linear form or None) of a one-step GEP on a stops pointer"""
    idx = [st for st in gep.d['path'] if st[0] in ('p', 'x')]
    if len(idx) != 1 and not (len(idx) >= 1):
        return None, None
    o = idx[0][1]
    if o[0] == 'c':
        return int(o[1]), {(): int(o[1])} if int(o[1]) else {}
    return None, linear(f, o)


def protocol_constants(P):
    """K_a (extra elements allocated), K_b (bias applied to the stored pointer), K_f (bias undone before free)"""
    Ka = Kb = Kf = None; init = None
    for f in P.functions():
        for x in f.insts():
            if x.op == 'store' and f.last_field(f.path(x.a[1])) == 'gradient.stops':
                y = f.v(f.strip_casts(x.a[0]))
                if y is not None and y.op == 'call' and (y.callee or '').startswith('pixman_malloc_ab'):
                    l = linear(f, y.a[0])
                    if l is not None and len([t for t in l if t != ()]) == 1 and list(l.values()).count(1) >= 1:
                        Ka = l.get((), 0); init = f
                elif y is not None and y.op == 'getelementptr':
                    b = f.v(f.strip_casts(y.a[0]))
                    if b is not None and b.op == 'load' and f.last_field(f.path(b.a[0])) == 'gradient.stops':
                        c, _ = _elem_index(f, y)
                        if c is not None:
                            Kb = c
        for c in f.calls('free'):
            y = f.v(f.strip_casts(c.a[0]))
            if y is not None and y.op == 'getelementptr':
                b = f.v(f.strip_casts(y.a[0]))
                if b is not None and b.op == 'load' and f.last_field(f.path(b.a[0])) == 'gradient.stops':
                    k, _ = _elem_index(f, y)
                    if k is not None:
                        Kf = -k
            elif y is not None and y.op == 'load' and f.last_field(f.path(y.a[0])) == 'gradient.stops':
                Kf = 0
    return Ka, Kb, Kf, init


def r1_sentinel_protocol(ck, P):
    R = ck.rule('C13-R1', 'the stop array is allocated with room for the sentinels, biased and un-biased by the same amount, every index lies in [-bias, n_stops + spare], and every gradient constructor checks the initialiser', floor=20)
    Ka, Kb, Kf, init = protocol_constants(P)
    if None in (Ka, Kb, Kf) or init is None:
        raise AnalysisBroken('gradient stop allocation protocol not recognised (K_a=%s K_b=%s K_f=%s)' % (Ka, Kb, Kf))
    ck.saw(init)
    if Kf == Kb and Kb >= 1:
        ck.ok(R, 'free undoes the bias (K_f == K_b == %d)' % Kb)
    else:
        ck.violation(R, '_pixman_image_fini', 'bias of gradient.stops', 'the stop pointer is biased by %d elements when stored but by %d when freed: free() receives a pointer it did not allocate' % (Kb, Kf), 'pixman-image.c')
    if Ka >= Kb + 1:
        ck.ok(R, 'allocation has %d spare elements for %d leading and %d trailing sentinel(s)' % (Ka, Kb, Ka - Kb))
    else:
        ck.violation(R, init.name, 'allocation size of gradient.stops', 'n_stops + %d elements are allocated but %d leading and at least one trailing sentinel are written' % (Ka, Kb), '%s:%d' % (init.unit.name, init.line))
    lo, hi = -Kb, Ka - Kb - 1
    for f in P.functions():
        for x in f.insts():
            if x.op != 'getelementptr':
                continue
            y = f.v(f.strip_casts(x.a[0]))
            if y is None or y.op != 'load' or f.last_field(f.path(y.a[0])) not in STOPS:
                continue
            if f is init:
                continue
            ck.saw(f)
            c, l = _elem_index(f, x)
            where = '%s: stops index at %s' % (f.name, x.loc())
            if c is not None:
                # constant index: a leading sentinel or the first user stops
                if c >= lo:
                    ck.ok(R, where + ' (constant %d)' % c)
                else:
                    ck.violation(R, f.name, 'stops[%d]' % c, '%s indexes the stop array at %d, before the %d leading sentinel(s)' % (f.name, c, Kb), x.loc())
                continue
            if l is None:
                ck.incomplete(R, '%s: stop index is not linear' % where); continue
            const = l.get((), 0)
            terms = {t: cf for t, cf in l.items() if t != ()}
            if len(terms) != 1 or list(terms.values()) != [1]:
                ck.incomplete(R, '%s: stop index %s not of the form n + c' % (where, l)); continue
            t = next(iter(terms))
            if t[0] == 'mem' and str(t[1][-1]).endswith(('n_stops', 'num_stops')):
                # n_stops + c
                if lo <= const <= hi:
                    ck.ok(R, where + ' (n_stops%+d)' % const)
                else:
                    ck.violation(R, f.name, 'stops[n_stops%+d]' % const, '%s indexes the stop array at n_stops%+d, outside [-%d, n_stops+%d]' % (f.name, const, Kb, hi), x.loc())
            elif t[0] == 'opaque':
                ph = f.by_id.get(t[1])
                # loop counter starting at 0 and bounded by the stop count: value in [0, n]; after the loop also n
                ok = False
                if ph is not None and ph.op == 'phi':
                    starts0 = any(a[0] == 'c' and int(a[1]) == 0 for a in ph.a)
                    bounded = False
                    for u2 in f.users(ph):
                        if u2.op == 'icmp' and u2.pred in ('slt', 'ult', 'ne'):
                            other = [o for o in u2.a if f.strip_casts(o) != ['v', ph.i]]
                            if other and any(a[0] == 'field' and a[1].endswith(('n_stops', 'num_stops')) for a in f.atoms(other[0])) or (other and any(a[0] in ('arg', 'local') for a in f.atoms(other[0]))):
                                bounded = True
                    ok = starts0 and bounded
                if ok and lo <= const <= hi:
                    ck.ok(R, where + ' (loop counter in [0, n_stops]%+d)' % const)
                elif ok:
                    ck.violation(R, f.name, 'stops[i%+d]' % const, '%s indexes the stop array at i%+d with i in [0, n_stops]: outside the sentinels' % (f.name, const), x.loc())
                else:
                    ck.incomplete(R, '%s: counter of the stop index not recognised as a loop bounded by the stop count' % where)
            else:
                ck.incomplete(R, '%s: stop index base %s not recognised' % (where, t))
    # constructors: every caller of the initialiser tests the result; the hook is installed by the initialiser
    for f in P.functions():
        for c in f.calls(init.name):
            ck.saw(f)
            tested = False
            t = c.bb.term
            if c.d.get('used'):
                for x in f.users(c):
                    if x.op in ('icmp', 'br', 'zext', 'trunc', 'xor'):
                        tested = True
            if tested:
                ck.ok(R, '%s tests the result of %s' % (f.name, init.name))
            else:
                ck.violation(R, f.name, 'unchecked ' + init.name, '%s does not test whether the stop array could be allocated and returns an image whose stops pointer is NULL' % f.name, c.loc())
    hook = [x for x in common.stores_field(init, 'image_common.property_changed') if x.a[0][0] == 'f']
    if hook:
        ck.ok(R, '%s installs the sentinel-writing property_changed hook (%s)' % (init.name, hook[0].a[0][1]))
    else:
        ck.violation(R, init.name, 'property_changed hook', 'gradient images get no property_changed hook: the sentinels are never written for the current repeat mode', '%s:%d' % (init.unit.name, init.line))


def r3_transform_status(ck, P):
    R = ck.rule('C13-R3', 'the gradient scanline functions test the result of pixman_transform_point_3d', floor=3)
    for un in ('pixman-linear-gradient.c', 'pixman-radial-gradient.c', 'pixman-conical-gradient.c'):
        u = P.units.get(un)
        if u is None:
            raise AnalysisBroken(un + ' not compiled')
        for f in u.functions.values():
            for c in f.calls('pixman_transform_point_3d'):
                ck.saw(f)
                if c.d.get('used'):
                    ck.ok(R, '%s/%s' % (un, f.name))
                else:
                    ck.violation(R, f.name, 'ignored pixman_transform_point_3d', '%s goes on with an overflowed homogeneous vector' % f.name, c.loc())


def r4_sentinel_contents(ck, P):
    R = ck.rule('C13-R4', 'for each repeat mode the leading/trailing sentinel stops carry the position and colour the repeat semantics prescribe', floor=16)
    hooks = [g for g in common.property_changed_functions(P) if any(True for x in g.insts() if x.op == 'switch')]
    f = None
    for g in hooks:
        if any(g.last_field(g.path(x.a[0])) == 'gradient.stops' for x in g.insts() if x.op == 'load'):
            f = g
    if f is None:
        raise AnalysisBroken('gradient property_changed hook not found')
    ck.saw(f)
    rep = P.enum('pixman_repeat_t')
    sw = [x for x in f.insts() if x.op == 'switch'][0]
    arms = {cv: bb for cv, bb in sw.d['cases']}
    dflt = sw.d['default']
    IMIN, IMAX = -(1 << 31), (1 << 31) - 1
    ONE = 65536
    # expectation: (begin.x, begin.colour source, end.x, end.colour source); positions as ('const', v) or ('lin', which stop, coeff, const)
    want = {
        'PIXMAN_REPEAT_NONE': (('const', IMIN), 'transparent', ('const', IMAX), 'transparent'),
        'PIXMAN_REPEAT_PAD': (('const', IMIN), 'first', ('const', IMAX), 'last'),
        'PIXMAN_REPEAT_NORMAL': (('lin', 'last', 1, -ONE), 'last', ('lin', 'first', 1, ONE), 'first'),
        'PIXMAN_REPEAT_REFLECT': (('lin', 'first', -1, 0), 'first', ('lin', 'last', -1, 2 * ONE), 'last'),
    }
    for name, v in rep.items():
        bb = arms.get(v, dflt)
        blk = f.blocks[bb]
        got = {}
        for x in blk.insts:
            if x.op == 'store':
                p = f.path(x.a[1])
                which = _which_sentinel(f, x.a[1])
                if which and p[1] and p[1][-1].endswith('.x'):
                    got[which + '.x'] = _pos_expr(f, x.a[0])
            elif x.op == 'call' and (x.callee or '').startswith('llvm.memcpy'):
                which = _which_sentinel(f, x.a[0])
                if which:
                    got[which + '.color'] = _colour_source(f, x.a[1])
        exp = dict(zip(('begin.x', 'begin.color', 'end.x', 'end.color'), want.get(name, ())))
        if name not in want:
            ck.incomplete(R, 'repeat mode %s has no expectation' % name); continue
        for k, e in exp.items():
            g_ = got.get(k)
            if g_ == e:
                ck.ok(R, '%s: %s' % (name, k))
            else:
                ck.violation(R, f.name, '%s %s' % (name, k), 'for %s the %s sentinel %s is %s; the repeat semantics require %s' % (name, k.split('.')[0], k.split('.')[1], g_, e), '%s:%d' % (f.unit.name, f.line))


def _which_sentinel(f, o):
    """'begin' for stops[-1], 'end' for stops[n], else None; looks through member GEPs"""
    for _ in range(6):
        x = f.v(f.strip_casts(o))
        if x is None:
            return None
        if x.op == 'getelementptr':
            b = f.v(f.strip_casts(x.a[0]))
            if b is not None and b.op == 'load' and f.last_field(f.path(b.a[0])) == 'gradient.stops':
                c, l = _elem_index(f, x)
                if c is not None:
                    return 'begin' if c < 0 else None
                if l is not None and l.get((), 0) == 0 and len(l) == 1:
                    return 'end'
                return None
            o = x.a[0]; continue
        return None
    return None


def _stop_ref(f, o):
    """'first' for stops[0], 'last' for stops[n-1] (through member GEPs), 'transparent' for a constant global"""
    for _ in range(6):
        x = f.v(f.strip_casts(o))
        if x is None:
            so = f.strip_casts(o)
            if so and so[0] in ('g', 'ce'):
                return 'transparent'
            return None
        if x.op == 'getelementptr':
            b = f.v(f.strip_casts(x.a[0]))
            if b is not None and b.op == 'load' and f.last_field(f.path(b.a[0])) == 'gradient.stops':
                c, l = _elem_index(f, x)
                if c is not None:
                    return 'first' if c == 0 else None
                if l is not None and l.get((), 0) == -1 and len(l) == 2:
                    return 'last'
                return None
            o = x.a[0]; continue
        return None
    return None


def _colour_source(f, o):
    return _stop_ref(f, o)


def _pos_expr(f, o):
    if o[0] == 'c':
        return ('const', int(o[1]))
    x = f.v(o)
    if x is None:
        return None
    if x.op == 'load':
        r = _stop_ref(f, x.a[0])
        return ('lin', r, 1, 0) if r else None
    if x.op in ('add', 'sub'):
        a, b = x.a
        ka = int(a[1]) if a[0] == 'c' else None; kb = int(b[1]) if b[0] == 'c' else None
        ea = _pos_expr(f, a) if ka is None else None; eb = _pos_expr(f, b) if kb is None else None
        if x.op == 'add':
            if ea and ea[0] == 'lin' and kb is not None:
                return ('lin', ea[1], ea[2], ea[3] + kb)
            if eb and eb[0] == 'lin' and ka is not None:
                return ('lin', eb[1], eb[2], eb[3] + ka)
        else:
            if ea and ea[0] == 'lin' and kb is not None:
                return ('lin', ea[1], ea[2], ea[3] - kb)
            if eb and eb[0] == 'lin' and ka is not None:
                return ('lin', eb[1], -eb[2], ka - eb[3])
    return None


def r6_transform_column(ck, P):
    """a position vector filled straight from the image transform takes one column of it, row by row"""
    import re
    R = ck.rule('C13-R6', 'wherever a gradient fills a vector from entries of the image transform, component k comes from row k and all components from one column (the homogeneous component may be matrix[2][2] once matrix[2][0] and matrix[2][1] are tested to be zero); a vector that is only scaled by the height is the y column', floor=2)
    n = 0
    for un, u in P.units.items():
        if 'gradient' not in un:
            continue
        for f in u.functions.values():
            fills = {}
            for x in f.insts():
                if x.op != 'store' or x.a[0][0] != 'v':
                    continue
                tp = f.path(x.a[1]); tf = list(tp[1])
                if len(tf) < 2 or tf[-2] != 'pixman_vector.vector' or f.root(tp)[0] != 'alloca':
                    continue
                ld = f.v(f.strip_casts(x.a[0]))
                if ld is None or ld.op != 'load':
                    continue
                sf = list(f.path(ld.a[0])[1])
                if len(sf) < 3 or sf[-3] != 'pixman_transform.matrix':
                    continue
                k = int(tf[-1].strip('[]')); r = int(sf[-2].strip('[]')); c = int(sf[-1].strip('[]'))
                fills.setdefault(f.root(tp), []).append((k, r, c, x))
            for base, fl in fills.items():
                n += 1; ck.saw(f)
                bad = None
                cols = {c for k, r, c, x in fl if k < 2}
                for k, r, c, x in fl:
                    if r != k:
                        bad = (x, 'component %d of the vector is taken from row %d of the matrix (entry [%d][%d])' % (k, r, r, c)); break
                if bad is None and len(cols) > 1:
                    bad = (fl[0][3], 'the components are taken from different columns %s of the matrix' % sorted(cols))
                if bad is None:
                    col = next(iter(cols)) if cols else None
                    for k, r, c, x in fl:
                        if k == 2 and c != col:
                            # allowed only as matrix[2][2] under zero tests of matrix[2][0] and matrix[2][1]
                            tested = set()
                            for t, s_ in f.guard_edges(x.bb.id):
                                cc, pred, ops = f.cond(t.a[0]) if t.a else (None, None, None)
                                if cc is None or cc.op != 'icmp':
                                    continue
                                for o in ops:
                                    y = f.v(f.strip_casts(o)) if o[0] == 'v' else None
                                    if y is not None and y.op == 'load':
                                        q = list(f.path(y.a[0])[1])
                                        if len(q) >= 3 and q[-3] == 'pixman_transform.matrix' and q[-2] == '[2]':
                                            tested.add(int(q[-1].strip('[]')))
                            if not (c == 2 and {0, 1} <= tested):
                                bad = (x, 'the homogeneous component is matrix[2][%d] although the other components use column %s and the projective entries are not excluded' % (c, col))
                    hp = [i for i, (pn, pt) in enumerate(f.params) if pn == 'height']; wp = [i for i, (pn, pt) in enumerate(f.params) if pn == 'width']
                    uses = lambda idx: any(any(o[:2] == ['a', idx] for o in y.a) for y in f.insts() if not (y.op == 'call' and isinstance(y.callee, str) and y.callee.startswith('llvm.dbg')))
                    if bad is None and col is not None and hp and wp and uses(hp[0]) and not uses(wp[0]) and col != 1:
                        bad = (fl[0][3], 'the vector is scaled by the height only, i.e. it must be the image of the y unit step (column 1), but column %d is used' % col)
                if bad:
                    ck.violation(R, f.name, 'vector filled from the transform', '%s: %s; the gradient parameter is then evaluated along the wrong direction for sheared or rotated transforms' % (f.name, bad[1]), bad[0].loc())
                else:
                    ck.ok(R, '%s: vector = column %s of the transform' % (f.name, sorted(cols)))
    if n == 0:
        ck.incomplete(R, 'no vector filled from transform entries found in the gradient units')


def r7_projective_split(ck, P):
    """a pixel loop that never divides by the homogeneous coordinate is only for transforms whose w is identically 1"""
    from .factors import _loops_of
    R = ck.rule('C13-R7', 'in a gradient scanline function that has both a pixel loop whose positions derive from the homogeneous coordinate w and one whose positions do not, the latter cannot be reached when a transform is present and w differs from 1.0 (partial evaluation with `w == pixman_fixed_1` false and `transform == NULL` false)', floor=2)
    n = 0
    for un, u in P.units.items():
        if 'gradient' not in un:
            continue
        L = _loops_of(u)
        for fn, loops in L.items():
            f = u.functions.get(fn)
            if f is None:
                continue
            wl = set()
            for x in f.insts():
                if x.op == 'load':
                    p = f.path(x.a[0]); q = list(p[1])
                    if len(q) >= 2 and q[-2] == 'pixman_vector.vector' and q[-1] == '[2]' and f.root(p)[0] == 'alloca':
                        wl.add(x.i)
            if not wl:
                continue
            memo = {}

            def dep_w(o, d=0):
                if o[0] != 'v' or d > 30:
                    return False
                if o[1] in memo:
                    return memo[o[1]]
                memo[o[1]] = False
                x = f.by_id[o[1]]
                r = x.i in wl or (x.op not in ('load', 'call', 'alloca') and any(dep_w(a, d + 1) for a in x.a))
                memo[o[1]] = r
                return r

            pixel_loops = []
            for lp in loops:
                if any(l2['parent'] == lp['header'] for l2 in loops):
                    continue
                blocks = lp['blocks']
                def is_buf(o):
                    if o[0] != 'v':
                        return False
                    r_ = f.root(f.path(o))
                    return r_[0] == 'phi' and f.by_id[r_[1]].dv == 'buffer'
                stores = [x for b in blocks for x in f.blocks[b].insts if (x.op == 'store' and is_buf(x.a[1])) or (x.op == 'call' and not (isinstance(x.callee, str) and x.callee.startswith('llvm.')) and any(is_buf(o) for o in x.a))]
                if not stores:
                    continue
                # the loop takes w into account when anything it computes with derives from w (a division inside, or quantities divided before the loop)
                divides = any(dep_w(o) for b in blocks for x in f.blocks[b].insts if x.op not in ('phi',) or True for o in x.a if o[0] == 'v')
                pixel_loops.append((lp, divides))
            if not any(d for lp, d in pixel_loops) or all(d for lp, d in pixel_loops):
                continue
            ck.saw(f)

            def known(x):
                if x.op == 'icmp' and x.d['p'] in ('eq', 'ne'):
                    vs = [f.strip_casts(o) for o in x.a]
                    cs = [int(o[1]) for o in x.a if o[0] == 'c']
                    if any(o[0] == 'v' and o[1] in wl for o in vs) and cs and cs[0] == 65536:
                        return int(x.d['p'] == 'ne')
                    # transform == NULL is false
                    if any(o[0] == 'n' for o in x.a) and any(o[0] == 'v' and f.v(o) is not None and f.v(o).op == 'load' and f.last_field(f.path(f.v(o).a[0])) == 'image_common.transform' for o in vs):
                        return int(x.d['p'] == 'ne')
                return None

            targets = {lp['header'] for lp, d in pixel_loops if not d}
            hit = common.reach_under(f, known, targets)
            for lp, d in pixel_loops:
                if d:
                    continue
                n += 1
                where = '%s: pixel loop at block %d that does not divide by w' % (f.name, lp['header'])
                if lp['header'] in hit:
                    ck.violation(R, f.name, 'non-projective pixel loop reachable with w != 1', '%s can enter its pixel loop that never divides by the homogeneous coordinate although a transform is present and w is not 1.0: positions are then taken about the wrong point for transforms whose bottom row is not (0, 0, 1)' % f.name, f.blocks[lp['header']].insts[0].loc())
                else:
                    ck.ok(R, where + ' is unreachable when w != 1.0')
    if n == 0:
        ck.incomplete(R, 'no gradient function with a dividing and a non-dividing pixel loop found')


def r8_position_advances(ck, P):
    """T-IND for the floating-point scan position of the gradient painters"""
    from .factors import _loops_of
    R = ck.rule('C13-R8', 'in every gradient pixel loop each loop-carried position component (floating point rx, ry, rz, t ... or fixed point advanced by a unit-vector step) that is advanced by a loop-invariant step on some path is advanced by it on every path to the back edge: pixels skipped because the mask is zero still move the scan position', floor=6)
    n = 0
    for un, u in P.units.items():
        if 'gradient' not in un:
            continue
        L = _loops_of(u)
        for fn, loops in L.items():
            f = u.functions.get(fn)
            if f is None:
                continue
            for lp in loops:
                blocks = set(lp['blocks'])
                for x in f.blocks[lp['header']].insts:
                    if x.op != 'phi' or x.ty not in ('double', 'float', 'i64', 'i32'):
                        continue
                    isint = x.ty.startswith('i')
                    inside = [a for a, bb in zip(x.a, x.d['bb']) if bb in blocks]
                    if not inside:
                        continue

                    def classify(o, seen):
                        """'adv' = phi + invariant, 'same' = the header phi unchanged, 'mix' = both reachable, 'other'"""
                        if o == ['v', x.i]:
                            return {'same'}
                        if o[0] != 'v' or o[1] in seen:
                            return set()
                        seen.add(o[1])
                        y = f.by_id[o[1]]
                        if y.op in ('fadd', 'fsub') and any(q == ['v', x.i] for q in y.a):
                            return {'adv'}
                        if isint and y.op in ('add', 'sub') and any(q == ['v', x.i] for q in y.a) and not any(q[0] == 'c' for q in y.a):
                            return {'adv'}          # a fixed-point coordinate advanced by a (non-constant) unit step; plain counters are not positions
                        if y.op == 'phi' and y.bb.id in blocks:
                            r = set()
                            for q in y.a:
                                r |= classify(q, seen)
                            return r
                        return {'other'}

                    kinds = set()
                    for o in inside:
                        kinds |= classify(o, set())
                    if 'adv' not in kinds:
                        continue
                    n += 1; ck.saw(f)
                    where = '%s loop %d: %s' % (f.name, lp['header'], x.dv or 'value %d' % x.i)
                    if 'same' in kinds:
                        ck.violation(R, f.name, 'position component %s not advanced on every path' % (x.dv or x.i), '%s advances %s only on some paths of its pixel loop (loop at block %d): after a pixel that is skipped (zero mask) the rest of the scanline is painted with the position of a pixel further left' % (f.name, x.dv or 'a position component', lp['header']), x.loc())
                    else:
                        ck.ok(R, where)
    if n == 0:
        ck.incomplete(R, 'no loop-carried floating-point position found in the gradient painters')


def r9_radial_roots(ck, P):
    """the parameter written for a radial gradient solves a*T^2 - 2*b*T + c = 0 (T = t / pixman_fixed_1, inva = pixman_fixed_1 / a)"""
    import sympy
    R = ck.rule('C13-R9', 'every gradient parameter t that radial_write_color hands to the colour writer is a root of a*T^2 - 2*b*T + c = 0 in fixed-point units (T = t / 65536, with inva = 65536 / a), including the degenerate linear case a == 0 where T = c / (2b): checked symbolically on the expression trees', floor=6)
    u = P.units.get('pixman-radial-gradient.c')
    f = u.functions.get('radial_write_color') if u else None
    if f is None:
        ck.incomplete(R, 'radial_write_color not found'); return
    ck.saw(f)
    pn = [p[0] for p in f.params]
    a, b, c = sympy.symbols('a b c')
    env0 = {('a', pn.index('a')): a, ('a', pn.index('b')): b, ('a', pn.index('c')): c}
    if 'inva' in pn:
        env0[('a', pn.index('inva'))] = 65536 / a

    def ev(g, o, env, d=0):
        if d > 40:
            return None
        if o[0] == 'c':
            return sympy.Integer(int(o[1]))
        if o[0] == 'fc':
            return sympy.nsimplify(float(o[1]))
        if o[0] == 'a':
            return env.get(('a', o[1]))
        if o[0] != 'v':
            return None
        x = g.by_id[o[1]]
        if x.op in ('fpext', 'fptrunc', 'sitofp', 'fptosi', 'sext', 'zext'):
            return ev(g, x.a[0], env, d + 1)
        if x.op in ('fadd', 'fsub', 'fmul', 'fdiv'):
            p_, q_ = ev(g, x.a[0], env, d + 1), ev(g, x.a[1], env, d + 1)
            if p_ is None or q_ is None:
                return None
            return {'fadd': p_ + q_, 'fsub': p_ - q_, 'fmul': p_ * q_, 'fdiv': p_ / q_}[x.op]
        if x.op == 'fneg':
            p_ = ev(g, x.a[0], env, d + 1)
            return None if p_ is None else -p_
        if x.op == 'call' and isinstance(x.callee, str):
            if x.callee.startswith('llvm.fmuladd'):
                p_, q_, r_ = (ev(g, y, env, d + 1) for y in x.a[:3])
                return None if None in (p_, q_, r_) else p_ * q_ + r_
            if x.callee in ('sqrt', 'llvm.sqrt.f64'):
                p_ = ev(g, x.a[0], env, d + 1)
                return None if p_ is None else sympy.sqrt(p_)
            h = u.functions.get(x.callee)
            if h is not None and len(h.blocks) == 1:
                args = [ev(g, y, env, d + 1) for y in x.a]
                if None in args:
                    return None
                t = h.blocks[0].term
                return ev(h, t.a[0], {('a', i): v for i, v in enumerate(args)}, d + 1) if t.op == 'ret' and t.a else None
        return None

    n = 0
    for x in f.insts():
        if x.op != 'call' or x.callee is not None or x.d.get('callee') in (None, ['asm']) or len(x.a) < 3:
            continue
        cal = x.d.get('callee')
        if not (isinstance(cal, list) and cal[0] == 'a' and 'write' in (pn[cal[1]] or '')):
            continue
        t = ev(f, x.a[1], env0)
        n += 1
        if t is None:
            ck.incomplete(R, 'the parameter passed to the colour writer at %s is not an expression of a, b, c' % x.loc()); continue
        linear = False
        for tt, s_ in f.guard_edges(x.bb.id):
            cc = f.v(tt.a[0]) if tt.a else None
            if cc is not None and cc.op == 'fcmp' and cc.d['p'] in ('oeq', 'ueq') and tt.d['succ'][0] == s_ and any(o == ['a', pn.index('a')] for o in cc.a) and any(o[0] == 'fc' and float(o[1]) == 0.0 for o in cc.a):
                linear = True
        T = t / 65536
        res = (-2 * b * T + c) if linear else (a * T ** 2 - 2 * b * T + c)
        res = sympy.simplify(res.subs(a, 0) if linear else res)
        where = 'parameter at %s (%s case): t = %s' % (x.loc(), 'linear a == 0' if linear else 'quadratic', sympy.simplify(t))
        if res == 0:
            ck.ok(R, where)
        else:
            ck.violation(R, f.name, 'gradient parameter of the %s case' % ('linear (a == 0)' if linear else 'quadratic'), 'radial_write_color writes the colour for t = %s, which does not solve a*T^2 - 2*b*T + c = 0 (residue %s): the colour of every pixel on that branch is taken at the wrong position of the gradient' % (sympy.simplify(t), res), x.loc())
    if n == 0:
        ck.incomplete(R, 'no call of the colour writer found in radial_write_color')


def r10_widen_before_arithmetic(ck, P, rid='C13-R10'):
    """T-WID: a 16.16 coordinate taken from a pixman_vector_t / pixman_transform_t that takes part in 64-bit arithmetic is widened
    first; doubling, adding or multiplying it in 32 bits and widening the result wraps for coordinates beyond 2^14 pixels."""
    R = ck.rule(rid, 'wherever a value loaded from a pixman_vector_t or pixman_transform_t is sign-extended to 64 bits, the extension is applied to the loaded coordinate itself, not to the result of 32-bit arithmetic (add, sub, mul, shl) on it: 2 * v + u formed in pixman_fixed_t overflows for positions beyond 16384 pixels although the 48.16 consumer could hold it', floor=65)
    for un, u in sorted(P.units.items()):
        for fn, f in sorted(u.functions.items()):
            def leaf_vec(o, d=0):
                z = f.v(o)
                if z is None or d > 6:
                    return False
                if z.op == 'load':
                    s = str(f.path(z.a[0]))
                    return 'pixman_vector' in s or 'pixman_transform' in s
                if z.op in ('add', 'sub', 'mul', 'shl', 'sext', 'trunc'):
                    return any(leaf_vec(a, d + 1) for a in z.a if a and a[0] == 'v')
                return False
            for x in f.insts():
                if x.op != 'sext' or x.ty != 'i64':
                    continue
                y = f.v(x.a[0])
                if y is None or y.ty != 'i32' or not leaf_vec(x.a[0]):
                    continue
                ck.saw(f)
                if y.op in ('add', 'sub', 'mul', 'shl'):
                    ck.violation(R, fn, '32-bit %s widened at %s' % (y.op, x.loc()), '%s computes a %s of transform/vector coordinates in 32 bits and only then extends the result to 64 bits: for source positions beyond +-16384 pixels the intermediate wraps, so the value handed to the 64-bit computation (and every pixel derived from it incrementally) is wrong although the first pixel of the scanline is still right' % (fn, {'add': 'sum', 'sub': 'difference', 'mul': 'product', 'shl': 'shift'}[y.op]), x.loc())
                else:
                    ck.ok(R, '%s/%s %s: coordinate widened before use' % (un, fn, x.loc()))


def r11_walker_segment_test_siblings(ck, P):
    """sibling agreement: the narrow and the wide pixel function of the gradient walker decide with the same comparisons whether the
    cached segment [left_x, right_x) still contains x."""
    R = ck.rule('C13-R11', 'every function that re-seats the gradient walker (calls its reset routine) tests the cached segment with the same comparisons of x against left_x and right_x: the segment is half-open, x == right_x belongs to the next one, in the 32-bit and in the float pipeline alike', floor=2)
    u = P.units.get('pixman-gradient-walker.c')
    if u is None:
        ck.incomplete(R, 'pixman-gradient-walker.c not compiled'); return
    resets = [g for g in u.functions.values() if any(f2 is not g and any(c.callee == g.name for c in f2.calls()) for f2 in u.functions.values()) and any(x.op == 'store' and (g.last_field(g.path(x.a[1])) or '').endswith('.left_x') for x in g.insts())]
    if len(resets) != 1:
        ck.incomplete(R, 'walker reset role matched %s' % [g.name for g in resets]); return
    reset = resets[0]
    SW = {'slt': 'sgt', 'sgt': 'slt', 'sle': 'sge', 'sge': 'sle', 'eq': 'eq', 'ne': 'ne'}
    sigs = {}
    for fn, f in sorted(u.functions.items()):
        if not any(c.callee == reset.name for c in f.calls()):
            continue
        ck.saw(f)
        sig = set()
        for x in f.insts():
            if x.op != 'icmp' or x.d['p'] not in SW:
                continue
            fld = [None, None]
            for i, o in enumerate(x.a):
                y = f.v(o)
                while y is not None and y.op in ('sext', 'zext', 'trunc'):
                    y = f.v(y.a[0])
                if y is not None and y.op == 'load':
                    lf = f.last_field(f.path(y.a[0])) or ''
                    if lf.endswith('.left_x') or lf.endswith('.right_x'):
                        fld[i] = lf.split('.')[-1]
            if fld[0] and not fld[1]:
                sig.add((fld[0], SW[x.d['p']], x.loc()))       # normalise to: x <pred> field
            elif fld[1] and not fld[0]:
                sig.add((fld[1], x.d['p'], x.loc()))
        sigs[fn] = sig
    if len(sigs) < 2:
        ck.incomplete(R, 'fewer than two functions re-seat the walker'); return
    # a comparison and its negation split the line at the same point: x < f and x >= f are one test, x <= f and x > f another
    CLS = {'slt': '<|>=', 'sge': '<|>=', 'sle': '<=|>', 'sgt': '<=|>', 'eq': '==', 'ne': '=='}
    ref_fn = sorted(sigs)[0]; ref = {(a, CLS.get(b, b)) for a, b, _ in sigs[ref_fn]}
    for fn, sig in sorted(sigs.items()):
        cur = {(a, CLS.get(b, b)) for a, b, _ in sig}
        if cur == ref:
            ck.ok(R, '%s: x %s' % (fn, ', '.join('%s %s' % (b, a) for a, b in sorted(cur))))
        else:
            d = sorted(cur ^ ref)
            loc = next((l for a, b, l in sig if (a, CLS.get(b, b)) in cur - ref), None) or next(iter(f.insts())).loc()
            ck.violation(R, fn, 'segment test', '%s tests the cached walker segment with {%s} while %s uses {%s}: for x exactly on a stop the two pipelines evaluate different segments (the half-open segment [left_x, right_x) excludes right_x), so the wide and the narrow rendering of the same gradient differ by a whole stop colour at hard edges' % (fn, ', '.join('x %s %s' % (b, a) for a, b in sorted(cur)), ref_fn, ', '.join('x %s %s' % (b, a) for a, b in sorted(ref))), loc)


def r12_step_matches_component(ck, P):
    """sibling agreement between a running position and its per-pixel step: the component of the position that was initialised from
    vector[i] of the transformed reference point advances by matrix[i][0] (one destination pixel to the right)."""
    R = ck.rule('C13-R12', 'in the gradient scanline loops, a running coordinate that starts from component i of the transformed reference point (v.vector[i]) is advanced per pixel by matrix[i][0] of the same transform - row i, column 0 - whatever local variables carry the values: a step taken from another entry makes every pixel after the first one use the parameter of a different point', floor=3)
    n = 0
    for un, u in sorted(P.units.items()):
        if 'gradient' not in un:
            continue
        for fn, f in sorted(u.functions.items()):
            def src_of(o, d=0, seen=None):
                """('vec', i) | ('mat', r, c) | None: what a floating value was converted from (through constant phis, divisions by 65536, casts)"""
                seen = set() if seen is None else seen
                if o[0] != 'v' or d > 12 or o[1] in seen:
                    return None
                seen.add(o[1])
                x = f.by_id[o[1]]
                if x.op == 'load':
                    st = [str(s) for s in f.path(x.a[0])[1]]
                    idx = [int(s[1:-1]) for s in st if s.startswith('[') and s[1:-1].lstrip('-').isdigit()]
                    nm = ' '.join(st)
                    if 'transform.matrix' in nm and len(idx) >= 2:
                        return ('mat', idx[-2], idx[-1])
                    if 'vector.vector' in nm and idx:
                        return ('vec', idx[-1])
                    return None
                if x.op in ('sitofp', 'fpext', 'fptrunc', 'sext', 'fdiv', 'fmul', 'fsub'):
                    r = src_of(x.a[0], d + 1, seen)
                    return r
                if x.op == 'phi':
                    rs = {src_of(a, d + 1, seen) for a in x.a if not (a[0] in ('fc', 'c'))}
                    rs.discard(None)
                    return rs.pop() if len(rs) == 1 else None
                return None
            for x in f.insts():
                if x.op != 'fadd':
                    continue
                for acc, inc in ((x.a[0], x.a[1]), (x.a[1], x.a[0])):
                    y = f.v(acc)
                    if y is None or y.op != 'phi' or not any(a == ['v', x.i] for a in y.a):
                        continue
                    init = [a for a in y.a if a != ['v', x.i]]
                    a_src = None
                    for a in init:
                        a_src = a_src or src_of(a)
                    i_src = src_of(inc)
                    if not a_src or a_src[0] != 'vec' or not i_src or i_src[0] != 'mat':
                        continue
                    n += 1; ck.saw(f)
                    where = '%s/%s %s: position from vector[%d] += matrix[%d][%d]' % (un, fn, x.loc(), a_src[1], i_src[1], i_src[2])
                    if i_src[1] == a_src[1] and i_src[2] == 0:
                        ck.ok(R, where)
                    else:
                        ck.violation(R, fn, 'step of component %d at %s' % (a_src[1], x.loc()), '%s advances the coordinate that starts from v.vector[%d] by matrix[%d][%d] per pixel; one pixel to the right moves the transformed point by column 0 of the matrix, i.e. component %d by matrix[%d][0]: all pixels of a scanline after the first are evaluated at the wrong point for any transform whose off-diagonal entries differ' % (fn, a_src[1], i_src[1], i_src[2], a_src[1], a_src[1]), x.loc())
    if n == 0:
        ck.incomplete(R, 'no running coordinate advanced by a matrix entry found in the gradient units')


def r13_homogeneous_degrees(ck, P, rid='C13-R13'):
    """dimensional analysis of the scanline functions of the gradients: the transformed position (x, y, w) and its per-pixel increments are
    homogeneous coordinates (degree 1: scaling all three by the same factor changes nothing); the gradient's own geometry (centre, radii,
    angle) lives in the Cartesian plane (degree 0).  A sum or difference needs equal degrees - the centre is subtracted from x / w, not
    from x - except where the code has established w == 1 (the affine branch)."""
    R = ck.rule(rid, 'in every gradient scanline function, outside the branch taken only when the homogeneous coordinate is known to be 1 (the test v.vector[2] == pixman_fixed_1 lies in the slice of its condition), every floating-point sum or difference combines values of the same homogeneous degree: vector[i] of the transformed position and matrix[i][0] have degree 1, products add and quotients subtract degrees, fields of the gradient have degree 0 - (x - cx) / w is not x / w - cx', floor=8)
    n = 0
    for f in P.functions():
        if not any(x.op == 'load' and 'pixman_vector.vector' in [str(q) for q in f.path(x.a[0])[1]] for x in f.insts()):
            continue
        if not any(x.op in ('fdiv',) for x in f.insts()) or not f.unit.name.endswith('-gradient.c'):
            continue
        # the affine condition: branches whose condition slice contains vector[2] == 65536
        def slice_has_w_test(o, seen=None, d=0):
            seen = set() if seen is None else seen
            y = f.v(o)
            if y is None or y.i in seen or d > 12:
                return False
            seen.add(y.i)
            if y.op == 'icmp' and y.d['p'] in ('eq', 'ne') and any(a[0] == 'c' and int(a[1]) == 65536 for a in y.a):
                for a in y.a:
                    z = f.v(f.strip_casts(a))
                    if z is not None and z.op == 'load':
                        st = [str(q) for q in f.path(z.a[0])[1]]
                        if 'pixman_vector.vector' in st and st[-1] == '[2]':
                            return True
            return any(slice_has_w_test(a, seen, d + 1) for a in y.a if a and a[0] == 'v')
        affine_blocks = set()
        for b in f.blocks:
            for t, s_ in f.guard_edges(b.id):
                if t.a and t.op == 'br' and slice_has_w_test(t.a[0]) and t.d['succ'][0] == s_:
                    affine_blocks.add(b.id)
        memo = {}
        def deg(o, d=0):
            """0, 1, -1 ... ; None = any (constants)"""
            if o[0] != 'v':
                return None
            if o[1] in memo:
                return memo[o[1]]
            memo[o[1]] = None
            y = f.by_id[o[1]]
            r = None
            if y.op == 'load':
                st = [str(q) for q in f.path(y.a[0])[1]]
                if 'pixman_vector.vector' in st:
                    r = 1
                elif 'pixman_transform.matrix' in st and st[-1] == '[0]':
                    r = 1
                else:
                    r = 0 if any('gradient' in q for q in st) else None
            elif y.op in ('sitofp', 'uitofp', 'fpext', 'fptrunc', 'sext', 'zext', 'trunc', 'fneg'):
                r = deg(y.a[0], d + 1)
            elif y.op in ('fmul', 'mul'):
                a, b = deg(y.a[0], d + 1), deg(y.a[1], d + 1)
                r = (a or 0) + (b or 0) if (a is not None or b is not None) else None
            elif y.op in ('fdiv', 'sdiv'):
                a, b = deg(y.a[0], d + 1), deg(y.a[1], d + 1)
                r = (a or 0) - (b or 0) if (a is not None or b is not None) else None
            elif y.op in ('fadd', 'fsub', 'add', 'sub'):
                a, b = deg(y.a[0], d + 1), deg(y.a[1], d + 1)
                r = a if a is not None else b
            elif y.op == 'call' and isinstance(y.callee, str) and y.callee.startswith('llvm.fmuladd'):
                a, b, c = deg(y.a[0], d + 1), deg(y.a[1], d + 1), deg(y.a[2], d + 1)
                r = (a or 0) + (b or 0) if (a is not None or b is not None) else c
            elif y.op in ('phi', 'select'):
                ds = [deg(a, d + 1) for a in (y.a if y.op == 'phi' else y.a[1:])]
                ds = [q for q in ds if q is not None]
                r = max(ds, key=abs) if ds else None
            memo[o[1]] = r
            return r
        for x in f.insts():
            if x.bb.id in affine_blocks:
                continue
            if x.op == 'call' and isinstance(x.callee, str) and x.callee.startswith('llvm.fmuladd'):
                p1, p2 = deg(x.a[0]), deg(x.a[1])
                a = (p1 or 0) + (p2 or 0) if (p1 is not None or p2 is not None) else None
                b = deg(x.a[2])
            elif x.op in ('fadd', 'fsub'):
                a, b = deg(x.a[0]), deg(x.a[1])
            else:
                continue
            if a is None or b is None:
                continue
            n += 1; ck.saw(f)
            opn = 'fused multiply-add' if x.op == 'call' else x.op
            where = '%s: %s at %s (degrees %d, %d)' % (f.name, opn, x.loc(), a, b)
            if a == b:
                ck.ok(R, where)
            else:
                ck.violation(R, f.name, '%s of degrees %d and %d at %s' % (opn, a, b, x.loc()), '%s combines a value of homogeneous degree %d with one of degree %d in a %s at %s, on a path where the homogeneous coordinate is not known to be 1: a Cartesian quantity of the gradient (centre, radius) is combined with an undivided homogeneous coordinate, so under a projective transform the gradient is evaluated about the wrong point' % (f.name, a, b, opn, x.loc()), x.loc())
    if n == 0:
        raise AnalysisBroken('%s: no floating-point sum of values with known homogeneous degrees found in the gradient scanline functions' % rid)


def r15_reflected_angle_stays_half_open(ck, P, rid='C13-R15'):
    """Interval typestate: the conical gradient normalises its angle into [0, K) with two loops (t < 0: t += K; t >= K: t -= K) and then
    reflects it, C - t * s.  The reflection turns the half-open interval round: [0, K) becomes (0, C] - the closed end is now the one
    that lies *behind* the last stop (the walker looks for pos < stop.x), transparent without a repeat.  The value C must therefore be
    taken care of (a comparison of the reflected value with C selecting something else) before the value is used."""
    R = ck.rule(rid, 'in pixman-conical-gradient.c, a value normalised into [0, K) by the pair of loops and then reflected (C - t * s) is compared with C, and what is returned / scaled to 16.16 on the side where it reaches C is not the reflected value itself: the ray at angle 0 (every pixel to the right of the centre on its row when the centre is at a pixel centre) would get t = 1.0, which lies behind the last stop and is transparent under REPEAT_NONE', floor=1)
    u = P.units.get('pixman-conical-gradient.c')
    if u is None:
        raise AnalysisBroken('%s: pixman-conical-gradient.c not compiled' % rid)
    def fconst(o):
        if o and o[0] == 'fc':
            try:
                return float(o[1])
            except ValueError:
                return None
        return None
    n = 0
    for fn, f in sorted(u.functions.items()):
        # loop-normalised values: a phi one of whose incoming values is (phi - K) under fcmp oge phi, K
        norm = set()
        for x in f.insts():
            if x.op != 'phi':
                continue
            for a in x.a:
                y = f.v(a) if a[0] == 'v' else None
                if y is not None and y.op == 'fsub' and list(y.a[0]) == ['v', x.i] and fconst(y.a[1]):
                    norm.add(x.i)
        if not norm:
            continue
        def from_norm(o, d=0):
            y = f.v(o) if o and o[0] == 'v' else None
            if y is None or d > 6:
                return False
            if y.i in norm:
                return True
            if y.op in ('fneg', 'fmul', 'fpext', 'fptrunc'):
                return any(from_norm(a, d + 1) for a in y.a)
            return False
        for x in f.insts():
            C = None
            if x.op == 'fsub' and fconst(x.a[0]) and from_norm(x.a[1]):
                C = fconst(x.a[0])
            elif x.op == 'call' and isinstance(x.callee, str) and x.callee.startswith('llvm.fmuladd') and fconst(x.a[2]) and (from_norm(x.a[0]) or from_norm(x.a[1])):
                neg = any((f.v(a) is not None and f.v(a).op == 'fneg') for a in x.a[:2] if a[0] == 'v') or any((fconst(a) or 0) < 0 for a in x.a[:2])
                if neg:
                    C = fconst(x.a[2])
            if C is None:
                continue
            n += 1; ck.saw(f)
            where = '%s: reflection at %s' % (fn, x.loc())
            cmps = [c for c in f.insts() if c.op == 'fcmp' and any(list(a) == ['v', x.i] for a in c.a) and any(fconst(a) == C for a in c.a) and c.pred in ('oge', 'ogt', 'oeq', 'uge', 'ugt', 'ueq', 'ole', 'olt', 'one', 'ule', 'ult', 'une')]
            # uses of the reflected value other than those comparisons, its own adjustment (x - C) and merges
            bad = []
            for y in f.users(x):
                if y in cmps or y.op in ('phi', 'select'):
                    continue
                if y.op in ('fsub', 'fadd') and any(fconst(a) in (C, -C) for a in y.a):
                    continue
                bad.append(y)
            merges = [y for y in f.users(x) if y.op in ('phi', 'select')]
            alt = any(any(list(a) != ['v', x.i] for a in (y.a if y.op == 'phi' else y.a[1:])) for y in merges)
            if cmps and not bad and (alt or not merges):
                ck.ok(R, where, 'the value %g is handled before use' % C)
            else:
                ck.violation(R, fn, 'reflected angle used with its closed end', '%s reflects the normalised angle ([0, K)) into (0, %g] at %s and %s: for a pixel exactly on the ray at angle 0 the parameter is %g, which lies behind the last stop - transparent under REPEAT_NONE (a transparent half row through the centre of every conical gradient whose centre is at a pixel centre)' % (fn, C, x.loc(), 'uses the result without comparing it with %g' % C if not cmps else 'still uses the unadjusted value', C), x.loc())
    if n == 0:
        raise AnalysisBroken('%s: no reflection of a loop-normalised angle found in pixman-conical-gradient.c' % rid)


def r16_packed_channels_are_clamped(ck, P, rid='C13-R16'):
    """T-GRD on a conversion: the 8-bit gradient pixel is assembled from four floats by `(uint32_t) (f + .5) << k & mask`.  The mask keeps
    one byte, so a value of 255.5 and more does not saturate, it wraps - an opaque stop pair becomes alpha 0.  'The values are already
    normalized' holds only up to rounding (slope * y + intercept cancels far from two close stops), so each value is clamped to [0, 255]
    before the conversion."""
    R = ck.rule(rid, 'in pixman-gradient-walker.c every float that is converted to an integer and shifted / masked into a packed pixel is, on the way to the conversion, the result of a clamp whose upper bound is the constant 255 (a select or merge that can deliver 255.0): the interpolated alpha of a repeating gradient with two close opaque stops, evaluated a few thousand periods away, comes out as 255.5 or more in single precision and would be packed as alpha 0 - a transparent pixel of an opaque gradient, which OVER (simplified to SRC for an opaque source) writes as it is', floor=4)
    u = P.units.get('pixman-gradient-walker.c')
    if u is None:
        raise AnalysisBroken('%s: pixman-gradient-walker.c not compiled' % rid)
    def fconst(o):
        if o and o[0] == 'fc':
            try:
                return float(o[1])
            except ValueError:
                return None
        return None
    n = 0
    for fn, f in sorted(u.functions.items()):
        for x in f.insts():
            if x.op not in ('fptoui', 'fptosi'):
                continue
            if not any(q.op in ('shl', 'and', 'or', 'lshr') for q in f.users(x)):
                continue
            n += 1; ck.saw(f)
            def clamped(o, d=0, seen=None):
                seen = set() if seen is None else seen
                y = f.v(o) if o[0] == 'v' else None
                if y is None or d > 8 or y.i in seen:
                    return False
                seen.add(y.i)
                if y.op == 'fadd' and any(fconst(a) is not None for a in y.a):
                    return clamped([a for a in y.a if fconst(a) is None][0], d + 1, seen)
                if y.op in ('fpext', 'fptrunc'):
                    return clamped(y.a[0], d + 1, seen)
                if y.op == 'load':
                    # a field of the local argb_t: the store that reaches the load (the last of the stores that dominate it)
                    pa = f.path(y.a[0])
                    if pa[0][0] != 'alloca':
                        return False
                    st = [q for q in f.insts() if q.op == 'store' and f.path(q.a[1]) == pa and f.dominates(q, y)]
                    if not st:
                        return False
                    last = [q for q in st if all(q is r or f.dominates(r, q) for r in st)]
                    return bool(last) and clamped(last[0].a[0], d + 1, seen)
                if y.op in ('phi', 'select'):
                    ops = y.a if y.op == 'phi' else y.a[1:]
                    if any(fconst(a) == 255.0 for a in ops):
                        return True
                    return any(clamped(a, d + 1, seen) for a in ops if a[0] == 'v')
                if y.op == 'call' and isinstance(y.callee, str) and ('minnum' in y.callee or 'fmin' in y.callee):
                    return any(fconst(a) == 255.0 for a in y.a)
                return False
            where = '%s: conversion at %s' % (fn, x.loc())
            if clamped(x.a[0]):
                ck.ok(R, where, 'clamped to 255')
            else:
                ck.violation(R, fn, 'unclamped channel packed into a pixel', '%s converts a float to an integer and packs it into one byte of a pixel (%s) without a clamp to 255 on the way: single-precision cancellation in slope * y + intercept lets an opaque interpolation reach 255.5 and more far away from two close stops, and the byte mask wraps it to 0 - transparent pixels in an opaque gradient' % (fn, x.loc()), x.loc())
    if n == 0:
        raise AnalysisBroken('%s: no float-to-integer packing found in pixman-gradient-walker.c' % rid)


def r17_walker_position_kept_wide(ck, P, rid='C13-R17'):
    """T-WID: the gradient parameter reaches the walker as a 48.16 value because it is not bounded (a pixel far from a short gradient has
    |t| in the thousands).  The repeat modes NORMAL and REFLECT legitimately reduce it to its low 17 bits; every other use - the
    comparison with the stop positions for NONE and PAD - needs the whole value."""
    R = ck.rule(rid, 'in the gradient walker every narrowing of the 48.16 position parameter to 32 bits is consumed only by a mask with a constant of at most 17 bits (the NORMAL / REFLECT reductions); the position that is compared with the stops in the remaining branch (NONE, PAD) is the 64-bit value: truncated to 16.16, a parameter of 32768 and more changes sign, and a PAD gradient paints its first colour far behind its end point', floor=2)
    u = P.units.get('pixman-gradient-walker.c')
    if u is None:
        raise AnalysisBroken('%s: pixman-gradient-walker.c not compiled' % rid)
    n = 0
    for fn, f in sorted(u.functions.items()):
        wide = [i for i, (nm, ty) in enumerate(f.params) if ty == 'i64' and nm in ('pos', 'x')]
        for x in f.insts():
            if x.op != 'trunc' or x.ty != 'i32' or x.a[0][0] != 'a' or x.a[0][1] not in wide:
                continue
            n += 1; ck.saw(f)
            bad = [q for q in f.users(x) if not (q.op == 'and' and any(a[0] == 'c' and 0 <= int(a[1]) <= 0x1ffff for a in q.a))]
            where = '%s: narrowing of %s at %s' % (fn, f.params[x.a[0][1]][0], x.loc())
            if not bad:
                ck.ok(R, where, 'masked to the repeat period')
            else:
                ck.violation(R, fn, 'narrowed position used unmasked', '%s narrows the 48.16 gradient position to 32 bits (%s) and uses the result other than through a mask of the repeat period (%s at %s): for a parameter beyond +-32768 the value changes sign, the search through the stops takes the other end of the gradient, and a PAD or NONE gradient shows the wrong colour far away from its end points' % (fn, x.loc(), bad[0].op, bad[0].loc()), bad[0].loc())
    if n == 0:
        raise AnalysisBroken('%s: no narrowing of the walker position found (the repeat reductions are the positive examples)' % rid)


def r18_reflection_mirrors_the_old_bounds(ck, P, rid='C13-R18'):
    """T-DEP: in an odd period of REPEAT_REFLECT the stop segment [l, r] is mirrored to [1 - r, 1 - l]: both new bounds are reflections of
    the *old* ones.  A bound reflected from the already reflected other bound (1 - (1 - r) = r) gives [1 - r, r]."""
    R = ck.rule(rid, 'in the gradient walker no reflection 0x10000 - x takes an x that is itself a reflection 0x10000 - y: the mirrored segment of REPEAT_REFLECT is built from the segment\'s old bounds, both of them; with the assignments in the other order the right bound is computed from the new left bound, and a segment whose ends do not add up to 1 (three stops, or stops away from 0 and 1) is interpolated over the wrong interval in every odd period', floor=2)
    u = P.units.get('pixman-gradient-walker.c')
    if u is None:
        raise AnalysisBroken('%s: pixman-gradient-walker.c not compiled' % rid)
    n = 0
    for fn, f in sorted(u.functions.items()):
        def is_reflection(y):
            return y is not None and y.op == 'sub' and y.a[0][0] == 'c' and int(y.a[0][1]) == 0x10000
        for x in f.insts():
            if not is_reflection(x):
                continue
            n += 1; ck.saw(f)
            src = f.v(f.strip_casts(x.a[1])) if x.a[1][0] == 'v' else None
            where = '%s: reflection at %s' % (fn, x.loc())
            if is_reflection(src):
                ck.violation(R, fn, 'reflection of a reflected bound', '%s reflects (0x10000 - x at %s) a value that is itself the reflection computed at %s: the bound comes out as the un-reflected other end, the mirrored segment is [1 - r, r] instead of [1 - r, 1 - l], and colours in odd periods of a reflected gradient are interpolated over the wrong interval' % (fn, x.loc(), src.loc()), x.loc())
            else:
                ck.ok(R, where, 'of an old bound')
    if n == 0:
        raise AnalysisBroken('%s: no reflection found in the gradient walker' % rid)


def r19_stop_search_starts_at_the_first_stop(ck, P, rid='C13-R19'):
    """T-COUNT: gradient_walker_reset looks for the stop segment of the *wrapped* position; the wrapped position jumps back at every period
    of REPEAT_NORMAL and runs backwards in the odd periods of REPEAT_REFLECT, so the linear search starts at the first stop every time."""
    R = ck.rule(rid, 'in the gradient walker the loop that searches the stop array (it compares the wrapped position with stops[n].x) starts its index at the constant 0 on every entry: an index remembered from the previous reset is ahead of the right segment after a wrap of the period, and the colour is extrapolated from the wrong pair of stops', floor=1)
    u = P.units.get('pixman-gradient-walker.c')
    if u is None:
        raise AnalysisBroken('%s: pixman-gradient-walker.c not compiled' % rid)
    n = 0
    for fn, f in sorted(u.functions.items()):
        for ph in f.insts():
            if ph.op != 'phi' or ph.ty != 'i32':
                continue
            steps = [f.v(a) for a in ph.a if a[0] == 'v']
            if not any(y is not None and y.op == 'add' and any(list(a) == ['v', ph.i] for a in y.a) and any(a[0] == 'c' and int(a[1]) == 1 for a in y.a) for y in steps):
                continue
            # the index is used to address pixman_gradient_stop_t.x
            used = False
            for q in f.insts():
                if q.op == 'getelementptr' and any(st[0] in ('p', 'x') and list(st[1]) == ['v', ph.i] for st in q.d.get('path', [])) :
                    used = True
                if q.op in ('sext', 'zext') and list(q.a[0]) == ['v', ph.i]:
                    for g_ in f.users(q):
                        if g_.op == 'getelementptr':
                            used = True
            if not used:
                continue
            n += 1; ck.saw(f)
            inits = [a for a, y in zip(ph.a, [f.v(a) if a[0] == 'v' else None for a in ph.a]) if not (y is not None and y.op == 'add' and any(list(b) == ['v', ph.i] for b in y.a))]
            where = '%s: stop search at %s' % (fn, ph.loc())
            if all(a[0] == 'c' and int(a[1]) == 0 for a in inits):
                ck.ok(R, where, 'from stop 0')
            else:
                ck.violation(R, fn, 'stop search resumes from a remembered index', '%s starts its search through the stops (%s) from a value other than 0: the position compared with the stops is the wrapped one, which is smaller than last time after every period of a repeating gradient, so the segment that holds it lies before the remembered index and is never looked at' % (fn, ph.loc()), ph.loc())
    if n == 0:
        raise AnalysisBroken('%s: no stop search loop found in the gradient walker' % rid)


def r20_horizontal_verdict_depends_on_the_y_column(ck, P, rid='C13-R20'):
    """T-DEP: a linear gradient may be painted as one scanline repeated for every row only if the gradient parameter does not change with
    the destination y.  How y enters the parameter is the second column of the transform, m[0][1] and m[1][1] (and m[2][1]): every way
    of answering 'horizontal' has looked at both."""
    R = ck.rule(rid, 'in linear_gradient_is_horizontal every edge that makes the function answer TRUE is guarded by comparisons whose operands, taken together, depend on matrix[0][1] and on matrix[1][1] of the image\'s transform (or on the absence of a transform): a shortcut that looks at matrix[1][0] instead takes a pure x shear for horizontal and repeats row 0 for every row', floor=1)
    fs = [f for f in P.functions() if f.name == 'linear_gradient_is_horizontal']
    if not fs:
        raise AnalysisBroken('%s: linear_gradient_is_horizontal not found' % rid)
    n = 0
    for f in fs:
        rets = f.rets()
        if len(rets) != 1 or not rets[0].a or rets[0].a[0][0] != 'v':
            raise AnalysisBroken('%s: unexpected return shape' % rid)
        rv = f.v(rets[0].a[0])
        if rv is None or rv.op != 'phi':
            continue
        for a, bb in zip(rv.a, rv.d['bb']):
            if not (a[0] == 'c' and int(a[1]) != 0):
                continue
            n += 1; ck.saw(f)
            idx = set(); no_transform = False
            edges = set(f.guard_edges(bb))
            t_ = f.blocks[bb].term
            if t_.op == 'br' and t_.a and len(set(t_.d['succ'])) == 2:
                edges.add((t_, rv.bb.id))
            for t, s in edges:
                if not t.a:
                    continue
                for at in f.atoms(t.a[0]):
                    pass
                work = [t.a[0]]; seen = set()
                while work:
                    o = work.pop()
                    y = f.v(o) if o and o[0] == 'v' else None
                    if y is None or y.i in seen:
                        continue
                    seen.add(y.i)
                    if y.op == 'load':
                        pa = f.path(y.a[0])
                        lf = f.last_field(pa) or ''
                        if 'pixman_transform.matrix' in pa[1]:
                            steps = [st for st in pa[1] if isinstance(st, str) and st.startswith('[') and st.endswith(']')]
                            ij = tuple(int(st[1:-1]) for st in steps[-2:]) if len(steps) >= 2 and all(st[1:-1].isdigit() for st in steps[-2:]) else None
                            if ij:
                                idx.add(ij)
                            else:
                                idx.add(str(pa[1][-3:]))
                        if lf == 'image_common.transform':
                            cc, p, ops = f.cond(t.a[0])
                            if cc is not None and cc.op == 'icmp' and any(q[0] == 'n' for q in (ops or [])):
                                no_transform = True
                        continue
                    if y.op == 'call':
                        continue
                    work.extend(q for q in y.a if q)
            where = '%s: TRUE from block %d' % (f.name, bb)
            # the general test: a floating-point comparison of the per-image increment (it is computed from the transformed unit y vector)
            general = any(t.a and f.v(t.a[0]) is not None and (f.v(t.a[0]).op == 'fcmp' or any(f.v(o) is not None and f.v(o).op == 'fcmp' for o in (f.cond(t.a[0])[2] or []) if o[0] == 'v') or f.cond(t.a[0])[0] is not None and f.cond(t.a[0])[0].op == 'fcmp') for t, s in edges)
            ok = general or no_transform or ({(0, 1), (1, 1)} <= {i for i in idx if isinstance(i, tuple)})
            if ok:
                ck.ok(R, where)
            else:
                ck.violation(R, f.name, 'horizontal verdict without the y column', '%s answers TRUE on an edge whose guards do not look at both matrix[0][1] and matrix[1][1] (they look at %s): whether the parameter changes from row to row is decided by how the destination y enters the transform, and a transform with matrix[0][1] != 0 (an x shear) gets one scanline repeated for every row' % (f.name, sorted(map(str, idx)) or 'no matrix element'), f.blocks[bb].term.loc())
    if n == 0:
        raise AnalysisBroken('%s: no TRUE edge found in linear_gradient_is_horizontal' % rid)
