"""C16 rules: shared mutable state, validate read-only on clean images, drawing does not mutate caller images."""
from collections import defaultdict
from ..build import AnalysisBroken
from . import common

# one symbol each, with the reason (DESIGN §7: no pattern-wide suppressions)
GLOBAL_EXEMPT = {
    '_pixman_log_error.n_messages': 'diagnostic message counter, touched only on caller-bug (return_if_fail) paths, which the property\'s premise excludes',
}


def _global_uses(P):
    """{global name: dict(stores=[(f,inst)], escapes=[(f,inst)], loads=n)} over all units"""
    use = defaultdict(lambda: dict(stores=[], escapes=[], loads=0, through=[]))

    def base_global(f, o, depth=0):
        # global g if o is &g or a constant/instruction GEP/cast chain on &g
        if not o or depth > 12:
            return None
        if o[0] == 'g':
            return o[1]
        if o[0] == 'ce':
            return base_global(f, o[2][0], depth + 1)
        x = f.v(o)
        if x is not None and x.op in ('getelementptr', 'bitcast'):
            return base_global(f, x.a[0], depth + 1)
        return None

    for f in P.functions():
        for x in f.insts():
            if x.op == 'load':
                g = base_global(f, x.a[0])
                if g:
                    use[g]['loads'] += 1
            elif x.op == 'store':
                g = base_global(f, x.a[1])
                if g:
                    use[g]['stores'].append((f, x))
                else:
                    # store through a pointer loaded from a global (shared object reached via the global)
                    r = f.root(f.path(x.a[1]))
                    if r[0] == 'global' and f.path(x.a[1])[0][0] == 'load':
                        use[r[1]]['through'].append((f, x))
                gv = base_global(f, x.a[0])
                if gv:
                    use[gv]['escapes'].append((f, x))
            elif x.op in ('getelementptr', 'bitcast', 'icmp', 'br', 'ret'):
                if x.op == 'ret' and x.a:
                    g = base_global(f, x.a[0])
                    if g:
                        use[g]['escapes'].append((f, x))
            elif x.op == 'call':
                W = param_write_summaries(P)
                tgt = P.resolve(f, x.callee)
                for k, o in enumerate(x.a):
                    g = base_global(f, o)
                    if not g:
                        continue
                    if tgt is not None and k not in W[tgt]:
                        continue        # callee only reads through this parameter
                    if tgt is None and (x.callee or '').startswith(('llvm.memcpy', 'llvm.memmove')) and k == 1:
                        continue
                    use[g]['escapes'].append((f, x))
            else:
                ops = list(x.a)
                for o in ops:
                    g = base_global(f, o)
                    if g:
                        use[g]['escapes'].append((f, x))
    return use


# C library functions that only read through their pointer arguments and do not retain them
READONLY_EXTERNALS = {'memcmp', 'strcmp', 'strncmp', 'strlen', 'strchr', 'strstr', 'getenv', 'bcmp'}


def param_write_summaries(P):
    """{Function: set of parameter indices through which the function (or a callee) may write or which it lets escape}"""
    if getattr(P, '_pws', None) is not None:
        return P._pws
    W = defaultdict(set)

    def arg_roots(f, o):
        return {r[1] for r in common.roots(f, o) if r[0] == 'arg'}

    for f in P.functions():
        for x in f.insts():
            if x.op == 'store':
                for k in arg_roots(f, x.a[1]):
                    if f.params[k][1].endswith('*'):
                        W[f].add(k)
                # storing the pointer itself somewhere = escape
                p = f.path(x.a[0])
                if p[0][0] == 'arg' and f.params[p[0][1]][1].endswith('*'):
                    W[f].add(p[0][1])
            elif x.op == 'ret' and x.a:
                p = f.path(x.a[0])
                if p[0][0] == 'arg':
                    W[f].add(p[0][1])
    changed = True
    while changed:
        changed = False
        for f in P.functions():
            for c in f.calls():
                g = P.resolve(f, c.callee)
                tgts = None
                if g is None and c.callee is None:
                    tgts = common.indirect_targets(P, f, c)
                for k, a in enumerate(c.a):
                    for i in arg_roots(f, a):
                        if not f.params[i][1].endswith('*') or i in W[f]:
                            continue
                        # only the pointer itself (not a value loaded through it) carries the capability
                        if f.path(a)[0][0] == 'load':
                            continue
                        if g is None and tgts:
                            if any(k in W[t] for t in tgts):
                                W[f].add(i); changed = True
                        elif g is None:
                            if (c.callee or '') in READONLY_EXTERNALS:
                                continue
                            if (c.callee or '').startswith('llvm.') and not (c.callee or '').startswith(('llvm.mem',)):
                                continue
                            if (c.callee or '').startswith(('llvm.memcpy', 'llvm.memmove')) and k == 1:
                                continue
                            W[f].add(i); changed = True
                        elif k in W[g]:
                            W[f].add(i); changed = True
    P._pws = W
    return W


# explicit configuration entry points that exist to replace a global (one symbol each, with the reason)
WRITER_EXEMPT = {
    'pixman_region_set_static_pointers': 'X-server ABI shim whose documented purpose is to install the three static region pointers once at start-up; not a drawing or region operation',
}


def ctor_only(P):
    """functions whose every caller chain starts at a function listed in llvm.global_ctors"""
    ctors = set()
    for u in P.units.values():
        for c in u.ctors:
            f = u.functions.get(c)
            if f:
                ctors.add(f)
    callers = P.callers(); at = common.address_taken_functions(P)
    co = set(ctors)
    changed = True
    while changed:
        changed = False
        for f in P.functions():
            if f in co or f.exported or f.name in at:
                continue
            cs = callers.get(f, set())
            if cs and all(c in co for c in cs):
                co.add(f); changed = True
    return ctors, co


def r1_globals(ck, P):
    R = ck.rule('C16-R1', 'every mutable global is thread-local, written only under the load-time constructor, or never written', floor=25)
    use = _global_uses(P)
    ctors, co = ctor_only(P)
    if not ctors:
        # without a load-time constructor nothing is "constructor only": every writer of a mutable global can run on any thread
        ck.note('no llvm.global_ctors entry: every store to a mutable global is judged as a run-time store')
    seen_tls = 0
    for u, g in P.all_globals():
        if g['const']:
            continue
        name = g['name']; us = use.get(name, dict(stores=[], escapes=[], loads=0, through=[]))
        where = '%s:%s' % (u.name, name)
        if name in GLOBAL_EXEMPT:
            ck.ok(R, where, 'exempt: ' + GLOBAL_EXEMPT[name]); continue
        if g['tls']:
            seen_tls += 1
            ck.ok(R, where, 'thread-local'); continue
        bad = [(f, x) for f, x in us['stores'] if f not in co and f.name not in WRITER_EXEMPT and (f.unit is u or not g['internal'])]
        esc = [(f, x) for f, x in us['escapes'] if f not in co]
        thr = [(f, x) for f, x in us['through'] if f not in co and (f.unit is u or not g['internal'])]
        if bad:
            f, x = bad[0]
            ck.violation(R, f.name, 'store to global ' + name, 'mutable global %s is written by %s, which can run after load time on any thread' % (name, f.name), x.loc())
        elif esc:
            f, x = esc[0]
            ck.violation(R, f.name, 'address of global ' + name + ' escapes', 'address of mutable global %s is passed on by %s (%s); writes through it cannot be excluded' % (name, f.name, x.op), x.loc())
        elif thr:
            f, x = thr[0]
            ck.violation(R, f.name, 'store through global ' + name, 'object reached through shared global %s is written by %s after load time' % (name, f.name), x.loc())
        else:
            kind = 'never written' if not us['stores'] else 'written only by constructor-time functions %s' % sorted({f.name for f, _ in us['stores']})
            ck.ok(R, where, kind)
    if seen_tls < 1:
        ck.incomplete(R, 'no thread-local global found: the fast-path cache anchor vanished')


def r2_validate_readonly(ck, P):
    R = ck.rule('C16-R2', 'in the validate function every store and call other than the alpha-map recursion is control-dependent on common.dirty != 0', floor=3)
    v = common.find_validate(P)
    ck.saw(v)
    for x in v.insts():
        if x.op not in ('store', 'call'):
            continue
        if x.op == 'call' and (x.callee or '').startswith('llvm.dbg'):
            continue
        if x.op == 'call' and x.callee == v.name:
            # the recursion: its argument must be the alpha map of the same image
            p = v.path(x.a[0])
            if v.fields_of(p) != ['image_common.alpha_map']:
                ck.violation(R, v.name, 'recursive call', 'validate recurses into something other than common.alpha_map', x.loc())
            else:
                ck.ok(R, 'recursion into alpha_map')
            continue
        conds = v.control_conditions(x.bb.id)
        good = False
        for br, succ in conds:
            if br.op != 'br' or not br.a:
                continue
            c = v.v(br.a[0])
            if c is None or c.op != 'icmp':
                continue
            at = v.atoms(br.a[0])
            if ('field', 'image_common.dirty') in at and ('const', 0) in at:
                taken_true = br.d['succ'][0] == succ
                nonzero = (c.pred == 'ne') == taken_true
                if nonzero:
                    good = True
        desc = ('store ' + v.pstr(v.path(x.a[1]))) if x.op == 'store' else ('call ' + str(x.callee or 'indirect'))
        if good:
            ck.ok(R, desc, 'control-dependent on dirty != 0')
        else:
            ck.violation(R, v.name, desc, '%s in the validate function is executed for clean images too: concurrent readers of a shared source race on it' % desc, x.loc())


DRAW_API = ['pixman_image_composite32', 'pixman_image_composite', 'pixman_composite_glyphs', 'pixman_composite_glyphs_no_mask',
            'pixman_composite_trapezoids', 'pixman_composite_triangles', 'pixman_add_traps', 'pixman_add_trapezoids', 'pixman_add_triangles',
            'pixman_rasterize_trapezoid', 'pixman_rasterize_edges', 'pixman_image_fill_boxes', 'pixman_image_fill_rectangles', 'pixman_blt', 'pixman_fill']


def mutation_summaries(P, excluded):
    """{function: set of parameter indices whose pointee image struct fields the function may store to},
    not counting what happens inside `excluded` functions (the validate closure)."""
    IMG = common.image_structs(P)
    mut = defaultdict(set); why = {}
    cg = common.full_callgraph(P)

    def arg_roots(f, o):
        return {r[1] for r in common.roots(f, o) if r[0] == 'arg'}

    for f in P.functions():
        if f in excluded:
            continue
        for x in f.insts():
            if x.op != 'store':
                continue
            p = f.path(x.a[1])
            lf = f.last_field(p)
            if not lf or lf.split('.')[0] not in IMG:
                continue
            if p[1] and (p[1][-1].startswith('[') or p[1][-1].startswith('+')) and False:
                continue
            for r in common.roots(f, x.a[1]):
                if r[0] == 'arg':
                    mut[f].add(r[1]); why.setdefault((f, r[1]), 'stores %s' % lf)
    changed = True
    while changed:
        changed = False
        for f in P.functions():
            if f in excluded:
                continue
            for c in f.calls():
                tg = []
                g = P.resolve(f, c.callee)
                if g is not None:
                    tg = [g]
                elif c.callee is None:
                    tg = common.indirect_targets(P, f, c)
                for g in tg:
                    if g in excluded:
                        continue
                    for k in list(mut.get(g, ())):
                        if k < len(c.a):
                            for a in arg_roots(f, c.a[k]):
                                if a not in mut[f]:
                                    mut[f].add(a); why[(f, a)] = 'passes it to %s (%s)' % (g.name, why.get((g, k), '')); changed = True
    return mut, why


def r3_drawing_no_mutation(ck, P):
    R = ck.rule('C16-R3', 'no exported drawing entry point stores into struct fields of an image it was given, outside validate (summaries over the whole call graph)', floor=12)
    V = common.validate_closure(P)
    mut, why = mutation_summaries(P, V)
    n = 0
    for name in DRAW_API:
        f = P.fn(name, required=False)
        if f is None:
            ck.incomplete(R, 'public drawing entry point %s vanished' % name); continue
        ck.saw(f); n += 1
        img_params = [i for i, (pn, pt) in enumerate(f.params) if 'pixman_image' in pt]
        bad = [i for i in img_params if i in mut.get(f, ())]
        if bad:
            for i in bad:
                ck.violation(R, f.name, 'image parameter %s' % f.params[i][0], 'drawing call %s may store into struct fields of its %s image: %s' % (f.name, f.params[i][0], why.get((f, i))), '%s:%d' % (f.file, f.line))
        else:
            ck.ok(R, f.name, 'image params %s untouched outside validate' % [f.params[i][0] for i in img_params])


SOURCE_PARAM_NAMES = ('src', 'mask', 'src_image', 'mask_image', 'source')


def reach_write_summaries(P, excluded):
    """{function: {param index: reason}} — the function, or a callee outside `excluded`, may store to memory reached from the parameter
    through field addresses and loads (the object itself, regions embedded in it, arrays it points to)"""
    W = defaultdict(dict)

    def arg_roots(f, o):
        return {r[1] for r in common.roots(f, o) if r[0] == 'arg'}

    fns = [f for f in P.functions() if f not in excluded]
    for f in fns:
        for x in f.insts():
            if x.op == 'store':
                for k in arg_roots(f, x.a[1]):
                    if f.params[k][1].endswith('*'):
                        W[f].setdefault(k, 'stores %s (%s)' % (f.pstr(f.path(x.a[1])), x.loc()))
    changed = True
    while changed:
        changed = False
        for f in fns:
            for c in f.calls():
                g = P.resolve(f, c.callee)
                tg = [g] if g is not None else (common.indirect_targets(P, f, c) if c.callee is None else [])
                if g is None and isinstance(c.callee, str) and c.callee.startswith(('llvm.memset', 'llvm.memcpy', 'llvm.memmove')):
                    for i in arg_roots(f, c.a[0]):
                        if i not in W[f] and f.params[i][1].endswith('*'):
                            W[f][i] = '%s into it (%s)' % (c.callee.split('.')[1], c.loc()); changed = True
                    continue
                for g in tg:
                    if g in excluded:
                        continue
                    for k, why in list(W.get(g, {}).items()):
                        if k < len(c.a):
                            for i in arg_roots(f, c.a[k]):
                                if i not in W[f] and f.params[i][1].endswith('*'):
                                    W[f][i] = 'passes memory reached from it to %s, which %s' % (g.name, why[:160]); changed = True
    return W


def r4_sources_untouched(ck, P):
    R = ck.rule('C16-R4', 'no exported drawing entry point, outside the validate function, stores to memory reached from a source or mask image (the image struct, the clip region embedded in it, its pixel and region arrays)', floor=8)
    V = common.validate_closure(P)
    W = reach_write_summaries(P, V)
    for name in DRAW_API:
        f = P.fn(name, required=False)
        if f is None:
            continue
        for i, (pn, pt) in enumerate(f.params):
            if 'pixman_image' not in pt or pn not in SOURCE_PARAM_NAMES:
                continue
            ck.saw(f)
            why = W.get(f, {}).get(i)
            if why:
                ck.violation(R, f.name, 'source image parameter %s' % pn, 'drawing call %s may store to memory reached from its %s image: %s' % (f.name, pn, why), '%s:%d' % (f.file, f.line))
            else:
                ck.ok(R, '%s(%s)' % (f.name, pn))


def r7_source_iterators_do_not_write_their_image(ck, P, rid='C16-R7'):
    """T-EFF: the functions an implementation registers as source iterators (pixman_iter_info_t entries with ITER_SRC, and the fini
    callbacks they install) read a source image that other threads may be reading too.  They do not write the image object: no store
    whose address is a field of iter->image, and no call that hands iter->image to a function writing through that parameter (taking a
    reference counts: ref_count is a plain integer of the shared object)."""
    from . import tables
    R = ck.rule(rid, 'no function registered as initializer / get_scanline of a source iterator (ITER_SRC entries of every implementation\'s iterator table), and no fini callback such a function installs, stores into a field of iter->image or passes iter->image to a callee that writes through that parameter (pixman_image_ref / unref included): a source shared read-only between threads is not modified by drawing from it', floor=30)
    IT = P.enum('iter_flags_t')
    W = param_write_summaries(P)
    fns = {}
    for u, g, t in tables.iter_tables(P):
        for e in t:
            if not (e['iter_flags'] & IT['ITER_SRC']):
                continue
            for k in ('initializer', 'get_scanline'):
                nm = tables.fname(e[k])
                if nm:
                    f = u.functions.get(nm) or P.fn(nm, required=False)
                    if f is not None:
                        fns[f] = '%s (%s)' % (nm, g['name'])
    # fini callbacks installed by those functions
    for f in list(fns):
        for x in f.insts():
            if x.op == 'store' and f.last_field(f.path(x.a[1])) == 'pixman_iter_t.fini' and x.a[0][0] == 'f':
                h = P.resolve(f, x.a[0][1])
                if h is not None:
                    fns.setdefault(h, '%s (fini installed by %s)' % (h.name, f.name))
    if not fns:
        raise AnalysisBroken('%s: no source iterator functions found in the iterator tables' % rid)
    def from_image(f, o, seen=None):
        """is the pointer the value of iter->image (or a cast of it)?"""
        seen = set() if seen is None else seen
        y = f.v(o) if o and o[0] == 'v' else None
        if y is None or y.i in seen:
            return False
        seen.add(y.i)
        if y.op == 'load':
            return f.last_field(f.path(y.a[0])) == 'pixman_iter_t.image'
        if y.op in ('bitcast', 'phi', 'select'):
            return any(from_image(f, a, seen) for a in (y.a if y.op != 'select' else y.a[1:]) if a)
        return False
    for f, what in sorted(fns.items(), key=lambda kv: kv[1]):
        ck.saw(f)
        bad = None
        for x in f.insts():
            if x.op == 'store':
                # address = field of the image object (not pixel memory, which is reached through a load of bits)
                b = f.path(x.a[1])
                base = b[0]
                if base[0] == 'load' and base[1][1] and base[1][1][-1] == 'pixman_iter_t.image' and b[1]:
                    bad = (x, 'stores into %s of iter->image' % b[1][-1])
            elif x.op == 'call' and x.callee:
                g = P.resolve(f, x.callee)
                if g is None:
                    continue
                for k, a in enumerate(x.a):
                    if from_image(f, a) and k in W.get(g, set()):
                        bad = (x, 'hands iter->image to %s, which writes through that parameter' % x.callee)
        if bad:
            ck.violation(R, f.name, 'source iterator writes its image', '%s %s at %s: the image a source iterator reads may be shared read-only between threads, so every drawing call from it races on that write (a reference count that drifts frees the image early or never)' % (what, bad[1], bad[0].loc()), bad[0].loc())
        else:
            ck.ok(R, what)


def r8_first_use_validates(ck, P, rid='C16-R8'):
    """Must-pass-through: an image becomes read-only for the library once it has been validated (the derived flags are written into the
    shared structure by the first request that sees it dirty).  'Shared read-only after its first use' therefore needs every use to
    perform that validation - also a request that turns out to draw nothing.  A request that returns before validating leaves the image
    dirty, and the *next* requests, possibly concurrent, write to it."""
    R = ck.rule(rid, 'in every exported function that validates an image parameter (a call of the validate function on it), every return is reached only through that call, except on paths that log a caller error: a request that is refused or found empty before the validation leaves a shared source dirty, and the two threads that use it next both store its flags, format code and accessors - a write to an image that is supposed to be read-only after its first use', floor=5)
    V = common.find_validate(P)
    # exported functions that validate a given image parameter themselves, or hand it to one that does (fixpoint)
    validates = {}
    for f in P.functions():
        for c in f.calls():
            if isinstance(c.callee, str) and P.resolve(f, c.callee) is V and f.strip_casts(c.a[0])[0] == 'a':
                validates.setdefault(f, set()).add(f.strip_casts(c.a[0])[1])
    grew = True
    while grew:
        grew = False
        for f in P.functions():
            for c in f.calls():
                g = P.resolve(f, c.callee) if isinstance(c.callee, str) else None
                if g is None or g not in validates or g is f:
                    continue
                for j, a in enumerate(c.a):
                    o = f.strip_casts(a)
                    if j in validates[g] and o[0] == 'a' and o[1] not in validates.get(f, set()):
                        validates.setdefault(f, set()).add(o[1]); grew = True
    n = 0
    for f in common.public_api(P):
        for c in f.calls():
            g_ = P.resolve(f, c.callee) if isinstance(c.callee, str) else None
            if g_ is V:
                o = f.strip_casts(c.a[0])
            elif g_ in validates and g_ is not f:
                os_ = [f.strip_casts(a) for j, a in enumerate(c.a) if j in validates[g_] and f.strip_casts(a)[0] == 'a' and (f.params[f.strip_casts(a)[1]][0] or '') not in ('dst', 'dest', 'destination')]
                if not os_:
                    continue
                o = os_[0]
            else:
                continue
            if o[0] != 'a':
                continue
            k = o[1]
            if (f.params[k][0] or '') in ('dst', 'dest', 'destination'):
                continue            # destinations are thread-private by the property's premise
            if g_ is not V and (f.params[k][0] or '') not in ('src', 'mask', 'source', 'src_image', 'mask_image'):
                continue            # through a callee only for what is named a source or mask (an `image` handed on is a destination or a glyph being stored)
            # only the first validation of that parameter matters
            def validates_k(c2):
                g2 = P.resolve(f, c2.callee) if isinstance(c2.callee, str) else None
                if g2 is V:
                    return list(f.strip_casts(c2.a[0])) == ['a', k]
                if g2 in validates and g2 is not f:
                    return any(j in validates[g2] and list(f.strip_casts(a)) == ['a', k] for j, a in enumerate(c2.a))
                return False
            if any(c2 is not c and c2.i < c.i and validates_k(c2) for c2 in f.calls()):
                continue
            n += 1; ck.saw(f)
            # blocks reachable from the entry without passing the call's block (and without passing an error-logging block or a NULL test of the image itself)
            avoid = {c2.bb.id for c2 in f.calls() if validates_k(c2)} | {b.id for b in f.blocks if common.is_log_error_block(f, b.id)}
            # the image may be optional: the edge "image == NULL" skips the validation legitimately
            cut = set()
            for b in f.blocks:
                t = b.term
                if t.op == 'br' and t.a:
                    cc, p, ops = f.cond(t.a[0])
                    if cc is not None and cc.op == 'icmp' and p in ('eq', 'ne') and any(q[0] == 'n' for q in ops) and any(list(f.strip_casts(q)) == ['a', k] for q in ops):
                        cut.add((b.id, t.d['succ'][0] if p == 'eq' else t.d['succ'][1]))
            seen = set(); work = [0]; bad = None
            while work and bad is None:
                b = work.pop()
                if b in seen or b in avoid:
                    continue
                seen.add(b)
                if f.blocks[b].term.op == 'ret':
                    bad = f.blocks[b]; break
                for s in f.blocks[b].succ:
                    if (b, s) not in cut:
                        work.append(s)
            where = '%s: validation of %s at %s' % (f.name, f.params[k][0], c.loc())
            if bad is None:
                ck.ok(R, where, 'on every path to a return')
            else:
                ck.violation(R, f.name, 'return before the validation of %s' % f.params[k][0], '%s can return (%s) without having validated its image parameter %s, although it validates it on other paths: when this refused or empty request is the first use of a shared image, the image stays dirty and the requests that follow - from several threads - each write its derived state' % (f.name, bad.term.loc(), f.params[k][0]), bad.term.loc())
    if n == 0:
        raise AnalysisBroken('%s: no exported function validates an image parameter' % rid)
