"""Composite-region and dispatch geometry rules (C03-R1/R3/R6, C04-R1, C17-R4)."""
from collections import defaultdict
from ..build import AnalysisBroken
from .. import consts
from . import common


# ---------------------------------------------------------------------------------- linear forms
def linear(f, o, depth=0):
    """signed linear form {atom: coeff} of an integer value; atoms are ('arg', n), ('field', root, chain) or ('opaque', id); None if not linear"""
    if depth > 30:
        return None
    k = o[0]
    if k == 'c':
        return {(): int(o[1])} if int(o[1]) else {}
    if k == 'a':
        return {('arg', o[1]): 1}
    if k != 'v':
        return None
    x = f.by_id.get(o[1])
    if x is None:
        return None
    if x.op in ('sext', 'zext', 'trunc', 'bitcast', 'freeze'):
        return linear(f, x.a[0], depth + 1)
    if x.op in ('add', 'sub'):
        a = linear(f, x.a[0], depth + 1); b = linear(f, x.a[1], depth + 1)
        if a is None or b is None:
            return None
        out = dict(a)
        for t, c in b.items():
            out[t] = out.get(t, 0) + (c if x.op == 'add' else -c)
        return {t: c for t, c in out.items() if c}
    if x.op == 'mul':
        a = linear(f, x.a[0], depth + 1); b = linear(f, x.a[1], depth + 1)
        for p, q in ((a, b), (b, a)):
            if p is not None and q is not None and set(p) <= {()}:
                kk = p.get((), 0)
                return {t: c * kk for t, c in q.items() if c * kk}
        return None
    if x.op == 'load':
        p = f.path(x.a[0])
        return {('mem', _pkey(f, p)): 1}
    return {('opaque', x.i): 1}


def _pkey(f, p):
    b, fl = p
    if b[0] == 'load':
        return ('*', _pkey(f, b[1])) + tuple(fl)
    if b[0] == 'alloca':
        return ('local', f.by_id[b[1]].dv or b[1]) + tuple(fl)
    if b[0] == 'phi':
        return ('phi', f.by_id[b[1]].dv or b[1]) + tuple(fl)
    return b[:2] + tuple(fl)


def find_region_function(P):
    """role: the callee of the public pixman_compute_composite_region that computes the 32-bit composite region"""
    pub = P.fn('pixman_compute_composite_region')
    for c in pub.calls():
        g = P.resolve(pub, c.callee)
        if g is not None and len(g.params) >= 12:
            return g
    raise AnalysisBroken('composite-region function (callee of pixman_compute_composite_region) not found')


def _image_chain(f, o):
    """for a pointer/loaded value derived from an image parameter: (param index, tuple of image fields walked), else None"""
    p = f.path(o)
    chain = []
    b, fl = p
    while True:
        chain = [q for q in fl if '.' in q and not q.startswith(('+', '['))] + chain
        if b[0] == 'load':
            b, fl = b[1]
        else:
            break
    if b[0] == 'arg':
        return b[1], tuple(q for q in chain if q != 'bits_image.common')
    return None


def r1_clip_sources(ck, P):
    R = ck.rule('C03-R1', 'the composite region consults the clip of dest, src, mask and of each one\'s alpha map, each guarded only by that object\'s own presence/have_clip_region', floor=6)
    F = find_region_function(P); ck.saw(F)
    # identify parameters by type/position: region, src, mask, dest
    img = [i for i, (n, t) in enumerate(F.params) if 'pixman_image' in t]
    if len(img) != 3:
        raise AnalysisBroken('composite-region function does not take three images')
    roles = {img[0]: 'src', img[1]: 'mask', img[2]: 'dest'}
    found = {}
    for c in F.calls():
        g = P.resolve(F, c.callee)
        if g is None:
            continue
        owner = None
        for a in c.a:
            ch = _image_chain(F, a)
            if ch is None:
                continue
            k, chain = ch
            if chain and chain[-1] == 'image_common.clip_region' and F.path(a)[0][0] != 'load' or (chain and chain[-1] == 'image_common.clip_region'):
                owner = (k, 'image_common.alpha_map' in chain)
            elif g.internal and any('pixman_image' in t for n, t in g.params) and (not chain or chain == ('image_common.alpha_map',)):
                # a source clipper taking the image itself
                if any(True for x in g.insts() if x.op == 'call' and any(g.last_field(g.path(b)) == 'image_common.clip_region' for b in x.a)):
                    owner = (k, chain == ('image_common.alpha_map',))
        if owner is None or owner[0] not in roles:
            continue
        role = roles[owner[0]] + ('.alpha_map' if owner[1] else '')
        found[role] = c
        # guard atoms
        bad = []; has_flag = False
        def early_exit(t):
            # a test of the result of an earlier clip / emptiness call: an early exit, not a guard
            return t.op == 'br' and t.a and any(a[0] == 'call' for a in F.atoms(t.a[0]))
        for br, succ in F.guard_edges(c.bb.id):
            if early_exit(br):
                continue
            if br.op != 'br' or not br.a:
                continue
            cc = F.v(br.a[0])
            if cc is None or cc.op != 'icmp':
                continue
            for o in cc.a:
                ch = _image_chain(F, F.strip_casts(o)) if o[0] in ('v', 'a') else None
                y = F.v(F.strip_casts(o))
                if y is not None and y.op == 'load':
                    ch = _image_chain(F, y.a[0])
                if ch is None:
                    continue
                k, chain = ch
                if k not in roles:
                    continue
                if k != owner[0]:
                    bad.append('%s.%s' % (roles[k], '.'.join(q.split('.')[1] for q in chain) or 'presence')); continue
                if owner[1]:
                    allowed = [(), ('image_common.alpha_map',), ('image_common.alpha_map', 'image_common.have_clip_region')]
                else:
                    allowed = [(), ('image_common.have_clip_region',)]
                if chain not in allowed:
                    bad.append('%s.%s' % (roles[k], '.'.join(q.split('.')[1] for q in chain)))
                if chain == allowed[-1]:
                    has_flag = True
        if not has_flag and not bad:
            ck.violation(R, F.name, 'have_clip_region test of the %s clip' % role, 'the clip region of %s is consulted without testing that object\'s have_clip_region: after the clip has been reset (set_clip_region (NULL) only clears the flag) the stale rectangles still clip the drawing' % role, c.loc())
            continue
        if bad:
            ck.violation(R, F.name, 'guard of the %s clip' % role, 'the clip region of %s is consulted only when %s holds; the other image roles consult their alpha map\'s clip regardless, so the same picture clips differently as source and as mask' % (role, ' and '.join(sorted(set(bad)))), c.loc())
        else:
            ck.ok(R, 'clip of %s guarded by its own presence only' % role)
    for role in ('dest', 'dest.alpha_map', 'src', 'src.alpha_map', 'mask', 'mask.alpha_map'):
        if role not in found:
            ck.violation(R, F.name, 'clip of ' + role, 'the composite region never intersects with the clip region of %s' % role, '%s:%d' % (F.unit.name, F.line))
    # destination bounds and alpha-map rectangle enter the region
    ext_atoms = set()
    for x in F.insts():
        if x.op == 'store':
            p = F.path(x.a[1])
            if any(q.startswith('pixman_box32.') for q in p[1]):
                ext_atoms |= F.atoms(x.a[0])
                for br, succ in F.control_conditions(x.bb.id):
                    if br.a:
                        ext_atoms |= F.atoms(br.a[0])
    for fld in ('bits_image.width', 'bits_image.height'):
        if ('field', fld) in ext_atoms:
            ck.ok(R, 'extents clamped with dest ' + fld)
        else:
            ck.violation(R, F.name, 'extent clamp ' + fld, 'the composite extents are not clamped to the destination %s' % fld.split('.')[1], '%s:%d' % (F.unit.name, F.line))
    am = False
    for c in F.calls():
        ats = set()
        for a in c.a:
            ats |= F.atoms(a)
        if {('field', 'image_common.alpha_origin_x'), ('field', 'image_common.alpha_origin_y'), ('field', 'bits_image.width'), ('field', 'bits_image.height')} <= ats and ('via', 'image_common.alpha_map') in ats:
            am = True
    if am:
        ck.ok(R, 'destination alpha-map rectangle intersected')
    else:
        ck.violation(R, F.name, 'alpha-map rectangle', 'the region is not intersected with the destination alpha map\'s rectangle (alpha_origin, width, height)', '%s:%d' % (F.unit.name, F.line))
    return F, roles


def r6_clip_offsets(ck, P):
    """C03-R6 (first half): dx,dy of each source clip call = dest - role (+ alpha origin), x with x and y with y"""
    R = ck.rule('C03-R6', 'clip offsets and per-box source/mask origins are the composite geometry (role = box + role_origin - dest_origin; x with x, y with y)', floor=14)
    F = find_region_function(P)
    ints = [i for i, (n, t) in enumerate(F.params) if t == 'i32']
    if len(ints) < 8:
        raise AnalysisBroken('composite-region function lacks the 8 integer geometry parameters')
    sx, sy, mx, my, dx, dy = ints[:6]
    img = [i for i, (n, t) in enumerate(F.params) if 'pixman_image' in t]
    origin = {img[0]: (sx, sy), img[1]: (mx, my)}
    for c in F.calls():
        g = P.resolve(F, c.callee)
        if g is None or not g.internal or len(c.a) != 4:
            continue
        ch = _image_chain(F, c.a[1])
        if ch is None or ch[0] not in origin:
            continue
        k, chain = ch
        ox, oy = origin[k]
        via_alpha = 'image_common.alpha_map' in chain
        for axis, argi, d, o_, fld in (('x', 2, dx, ox, 'image_common.alpha_origin_x'), ('y', 3, dy, oy, 'image_common.alpha_origin_y')):
            lf = linear(F, c.a[argi])
            exp = {('arg', d): 1, ('arg', o_): -1}
            if via_alpha:
                exp[('mem', ('arg', k, fld))] = 1
            what = 'd%s of the %s%s clip' % (axis, {img[0]: 'src', img[1]: 'mask'}[k], '.alpha_map' if via_alpha else '')
            if lf == exp:
                ck.ok(R, what)
            else:
                ck.violation(R, F.name, what, '%s is %s, the composite geometry requires %s' % (what, _lfs(F, lf), _lfs(F, exp)), c.loc())
    # per-box dispatch in the exported composite function
    C = P.fn('pixman_image_composite32'); ck.saw(C)
    ints = [i for i, (n, t) in enumerate(C.params) if t == 'i32']
    sx, sy, mx, my, dx, dy = ints[1:7] if C.params[0][1] == 'i32' else ints[:6]
    want = {'src_x': ('x1', sx, dx), 'src_y': ('y1', sy, dy), 'mask_x': ('x1', mx, dx), 'mask_y': ('y1', my, dy)}
    seen = set()
    for x in C.insts():
        if x.op != 'store':
            continue
        lf_ = C.last_field(C.path(x.a[1]))
        if not lf_ or not lf_.startswith('pixman_composite_info_t.'):
            continue
        m = lf_.split('.')[1]
        lf = linear(C, x.a[0])
        if lf is None:
            continue
        boxes = {t for t in lf if t and t[0] == 'mem' and any(str(q).startswith('pixman_box32.') for q in t[1])}
        if not boxes:
            continue
        def boxf(t):
            return [q for q in t[1] if str(q).startswith('pixman_box32.')][-1].split('.')[1]
        norm = {}
        for t, cf in lf.items():
            norm[('box', boxf(t)) if t in boxes else t] = norm.get(('box', boxf(t)) if t in boxes else t, 0) + cf
        if m in want:
            b, o_, d = want[m]
            exp = {('box', b): 1, ('arg', o_): 1, ('arg', d): -1}
        elif m in ('dest_x', 'dest_y'):
            exp = {('box', 'x1' if m == 'dest_x' else 'y1'): 1}
        elif m in ('width', 'height'):
            exp = {('box', 'x2' if m == 'width' else 'y2'): 1, ('box', 'x1' if m == 'width' else 'y1'): -1}
        else:
            continue
        seen.add(m)
        if norm == exp:
            ck.ok(R, 'dispatch info.%s' % m)
        else:
            ck.violation(R, C.name, 'info.' + m, 'per-box %s is %s, the composite geometry requires %s' % (m, _lfs(C, norm), _lfs(C, exp)), x.loc())
    for m in ('src_x', 'src_y', 'mask_x', 'mask_y', 'dest_x', 'dest_y', 'width', 'height'):
        if m not in seen:
            ck.incomplete(R, 'per-box assignment of info.%s not found in %s' % (m, C.name))


def _lfs(f, lf):
    if lf is None:
        return 'a non-linear expression'
    out = []
    for t, c in sorted(lf.items(), key=str):
        if t == ():
            nm = ''
        elif t[0] == 'arg':
            nm = f.params[t[1]][0] or 'arg%d' % t[1]
        elif t[0] == 'box':
            nm = 'box.' + t[1]
        elif t[0] == 'mem':
            nm = '.'.join(str(q).split('.')[-1] for q in t[1][1:]) if isinstance(t[1], tuple) else str(t[1])
        else:
            nm = str(t)
        out.append(('%+d' % c) + ('*' + nm if nm else ''))
    return ' '.join(out) or '0'


def r3_one_call_per_box(ck, P):
    R = ck.rule('C03-R3', 'the looked-up composite routine is called once per rectangle of the computed region, with the box taken from that region', floor=2)
    C = P.fn('pixman_image_composite32')
    F = find_region_function(P)
    # the indirect call through the looked-up function pointer
    calls = [c for c in C.calls() if c.callee is None and 'callee' in c.d]
    if not calls:
        ck.incomplete(R, 'no indirect routine call in pixman_image_composite32'); return
    for c in calls:
        # the box pointer: info.dest_x is loaded from a phi that starts at pixman_region32_rectangles(&region) and advances by one
        phis = [x for x in C.insts() if x.op == 'phi' and x.dt and 'pixman_box32' in (x.dt or '')]
        ok = False
        for ph in phis:
            srcs = [C.v(a) for a in ph.a]
            starts = [s for s in srcs if s is not None and s.op == 'call' and s.callee and 'rectangles' in s.callee]
            steps = [s for s in srcs if s is not None and s.op == 'getelementptr' and s.d.get('coff') in (16,) and C.v(s.a[0]) is ph]
            if starts and steps:
                # region passed to rectangles() is the one computed by the region function in this activation
                reg = C.path(starts[0].a[0])
                rc = [q for q in C.calls(F.name)]
                if rc and C.path(rc[0].a[0]) == reg and C.dominates(rc[0], starts[0]):
                    # the loop counter comes from the out-parameter of rectangles()
                    ok = True
        if ok:
            ck.ok(R, 'routine call iterates the rectangles of the region computed for this request')
        else:
            ck.violation(R, C.name, 'routine dispatch', 'the composite routine is not called once per rectangle of the region computed by %s' % F.name, c.loc())
        # and is not reachable when the region function fails
        rc = [q for q in C.calls(F.name)]
        if rc:
            guarded = False
            for br, succ in C.control_conditions(c.bb.id):
                if br.op == 'br' and br.a:
                    cc = C.v(br.a[0])
                    if cc is not None and cc.op == 'icmp' and any(C.strip_casts(o) == ['v', rc[0].i] for o in cc.a):
                        if (cc.pred == 'ne') == (br.d['succ'][0] == succ):
                            guarded = True
            if guarded:
                ck.ok(R, 'dispatch only when the region function returned TRUE')
            else:
                ck.violation(R, C.name, 'dispatch guard', 'the routine is dispatched although the composite region may be empty/failed', c.loc())


# ---------------------------------------------------------------------------------- C03-R2 raw writers bounded by the image
def _local_object_atoms(P, f, o, depth=0):
    """atoms of a value including, for values loaded from a local object (alloca) or from the result of an accessor call on a
    local object, the atoms of every argument of calls in f that may write that object (region built by intersections)"""
    from .threads import param_write_summaries
    W = param_write_summaries(P)
    ats = set(f.atoms(o))
    locals_ = {a[1] for a in ats if a[0] == 'local'}
    # values loaded through a pointer returned by a call taking &local (pixman_region32_rectangles (&region, ...))
    work = [o]; seen = set()
    while work:
        q = work.pop()
        x = f.v(q)
        if x is None or x.i in seen:
            continue
        seen.add(x.i)
        if x.op == 'call':
            for a in x.a:
                r = f.root(f.path(a))
                if r[0] == 'alloca':
                    locals_.add(f.by_id[r[1]].dv or str(r[1]))
        if x.op == 'load':
            work.append(x.a[0])
        elif x.op == 'getelementptr':
            work.append(x.a[0])
            for st in x.d['path']:
                if st[0] in ('p', 'x'):
                    work.append(st[1])
        else:
            work.extend(x.a)
    for c in f.calls():
        g = P.resolve(f, c.callee)
        for k, a in enumerate(c.a):
            r = f.root(f.path(a))
            if r[0] == 'alloca' and (f.by_id[r[1]].dv or str(r[1])) in locals_ and (g is None or k in W[g]):
                for b in c.a:
                    ats |= f.atoms(b)
    return ats


def r2_raw_writers_bounded(ck, P, rows=True):
    from . import status, tables
    R = ck.rule('C03-R2', 'raw pixel writers reachable from the API without the composite region are bounded by the image: coordinates depend on bits.width and bits.height of the written image', floor=1 if not rows else 3)
    slots = status.slot_functions(P)
    prim = {f for d in slots.values() for f in d.values()}
    prim |= {P.fn(n) for n in ('pixman_fill', 'pixman_blt') if P.fn(n, required=False)}
    for f in list(P.functions()):
        if any(c.callee is None and 'callee' in c.d and f.v(c.d['callee']) is not None and f.v(c.d['callee']).op == 'load' and f.last_field(f.path(f.v(c.d['callee']).a[0])) in ('pixman_implementation_t.fill', 'pixman_implementation_t.blt') for c in f.calls()):
            prim.add(f)
    routines = set()
    for u, g, t in tables.composite_tables(P):
        for e in t:
            n = tables.fname(e['func'])
            if n:
                routines.add((u.name, n))
    # (A) direct calls of fill/blt primitives on an image's bits outside composite routines
    for f in P.functions():
        if (f.unit.name, f.name) in routines or f in prim:
            continue
        for c in f.calls():
            g = P.resolve(f, c.callee)
            if g is None or g not in prim:
                continue
            imgs = set()
            for a in c.a:
                y = f.v(f.strip_casts(a))
                if y is not None and y.op == 'load' and f.last_field(f.path(y.a[0])) == 'bits_image.bits':
                    imgs.add(f.root(f.path(y.a[0])))
            if not imgs:
                continue
            ck.saw(f)
            ats = set()
            for a in c.a:
                if a[0] == 'v' and f.by_id[a[1]].ty == 'i32':
                    ats |= _local_object_atoms(P, f, a)
            for br, succ in f.control_conditions(c.bb.id):
                if br.a:
                    ats |= f.atoms(br.a[0])
            miss = [q for q in ('bits_image.width', 'bits_image.height') if ('field', q) not in ats]
            if miss:
                ck.violation(R, f.name, 'raw write ' + g.name, '%s hands the image\'s pixel buffer to %s with coordinates that never meet the image\'s %s: a request reaching outside the image writes outside the buffer' % (f.name, g.name, ' / '.join(m.split('.')[1] for m in miss)), c.loc())
            else:
                ck.ok(R, '%s: %s coordinates bounded by width and height' % (f.name, g.name))
    if not rows:
        return
    # (B) row addressing from a parameter: obligation propagates to callers until discharged by a bits.height reference
    oblig = {}      # Function -> {param idx: (origin description)}
    for f in P.functions():
        for x in f.insts():
            if x.op != 'getelementptr':
                continue
            y = f.v(f.strip_casts(x.a[0]))
            if y is None or y.op != 'load' or f.last_field(f.path(y.a[0])) != 'bits_image.bits':
                continue
            idx = [st[1] for st in x.d['path'] if st[0] in ('p', 'x') and st[1][0] != 'c']
            for o in idx:
                ats = f.atoms(o)
                if ('field', 'bits_image.rowstride') not in ats:
                    continue
                conds = set()
                for br, succ in f.control_conditions(x.bb.id):
                    if br.a:
                        conds |= f.atoms(br.a[0])
                if ('field', 'bits_image.height') in ats | conds:
                    continue
                params = {a[1] for a in ats if a[0] == 'arg' and f.params[a[1]][1] in ('i32', 'i16', 'i64')}
                if params and not f.exported and (f.unit.name, f.name) not in routines:
                    for k in params:
                        oblig.setdefault(f, {})[k] = 'row address %s in %s' % (x.loc(), f.name)
                    # the row pointer is advanced in a loop: the parameters that terminate that loop bound the last row touched
                    for y2 in f.insts():
                        if y2.op == 'icmp' and y2.pred in ('eq', 'ne', 'sge', 'sgt', 'sle', 'slt'):
                            sides = [f.strip_casts(q) for q in y2.a]
                            for i in (0, 1):
                                ph = f.v(sides[i])
                                if ph is not None and ph.op == 'phi' and sides[1 - i][0] == 'a' and f.params[sides[1 - i][1]][1] == 'i32' and (ph.dt or '').startswith('pixman_fixed'):
                                    oblig.setdefault(f, {}).setdefault(sides[1 - i][1], 'row loop bound %s in %s' % (y2.loc(), f.name))
    changed = True; reported = set()
    callers = P.callers()
    at = common.address_taken_functions(P)
    while changed:
        changed = False
        for f in list(oblig):
            for k, origin in list(oblig[f].items()):
                for g in callers.get(f, ()):
                    for c in g.calls(f.name):
                        if k >= len(c.a):
                            continue
                        if _bounded_by_height(g, c, c.a[k]):
                            ck.ok(R, '%s bounds the row passed to %s by bits.height' % (g.name, f.name))
                            continue
                        ps = {a[1] for a in g.atoms(c.a[k]) if a[0] == 'arg'}
                        if g.exported:
                            key = (g.name, f.name)
                            if key not in reported:
                                reported.add(key)
                                ck.violation(R, g.name, 'row from caller into ' + f.name, 'exported %s forms a row address from its parameter %s without consulting bits.height (%s): rows above or below the image are written' % (g.name, [g.params[p][0] for p in ps], origin), c.loc())
                        # library callers of g (exported or not) inherit the obligation for the parameters involved
                        for p in ps:
                            if p not in oblig.setdefault(g, {}):
                                oblig[g][p] = origin; changed = True



def _bounded_by_height(g, call, o, _nofallback=False):
    """is the row value o passed at `call` clamped against bits.height?  Either it is (a rounding of) a clamp phi whose selecting
    comparison tests the phi's own unclamped incoming value against bits.height, with nothing but constants added after the clamp,
    or the call is guarded by a comparison of that same value with bits.height."""
    # walk back through casts, rounding helper calls (first argument) and +-constant
    chain = []
    cur = o
    for _ in range(12):
        # a narrowing on the way from the clamp to the use undoes the clamp: the clamp bounded the wide value
        y_ = g.v(cur) if cur and cur[0] == 'v' else None
        while y_ is not None and y_.op in ('sext', 'zext', 'trunc', 'bitcast', 'freeze'):
            if y_.op == 'trunc':
                src_ = g.v(y_.a[0])
                if src_ is not None and src_.ty in ('i64', 'i128') and y_.ty in ('i32', 'i16'):
                    return False
            cur = y_.a[0]
            y_ = g.v(cur) if cur and cur[0] == 'v' else None
        x = g.v(g.strip_casts(cur))
        if x is None:
            break
        chain.append(x)
        if x.op == 'phi':
            break
        if x.op == 'call' and x.a:
            cur = x.a[0]; continue
        if x.op in ('add', 'sub') and any(q[0] == 'c' for q in x.a):
            cur = [q for q in x.a if q[0] != 'c'][0]; continue
        if x.op in ('add', 'sub', 'mul', 'shl'):
            return False        # a run-time quantity is added after any clamp: the clamp (if any) no longer bounds the row
        break
    base = chain[-1] if chain else None
    if base is not None and base.op == 'phi' and len(base.a) == 2:
        for i in (0, 1):
            clamp, raw = base.a[i], base.a[1 - i]
            if ('field', 'bits_image.height') not in g.atoms(clamp):
                continue
            src_bb = base.d['bb'][i]
            for p in [src_bb] + g.blocks[src_bb].pred:
                t = g.blocks[p].term
                if t.op == 'br' and t.a:
                    cc, pred, ops = g.cond(t.a[0])
                    if cc is not None and cc.op == 'icmp' and ('field', 'bits_image.height') in g.atoms(t.a[0]):
                        # the compared value is the raw incoming (possibly shifted to integer pixels)
                        for qi, q in enumerate(ops):
                            y = g.v(g.strip_casts(q))
                            if y is not None and y.op in ('ashr', 'lshr', 'sdiv'):
                                q = y.a[0]
                            if g.strip_casts(q) == g.strip_casts(raw):
                                # the clamp must be taken whenever row >= height: `row >= height` on the edge into the clamp, i.e. no row equal
                                # to height slips through (a strict `>` lets the first row below the image be written)
                                succs = t.d['succ']
                                into_clamp_true = (succs[0] == src_bb) or (p != src_bb and succs[0] in (src_bb,)) or (p == src_bb)
                                if p != src_bb:
                                    into_clamp_true = succs[0] == src_bb
                                else:
                                    into_clamp_true = None
                                pr = pred if qi == 0 else {'sge': 'sle', 'sgt': 'slt', 'sle': 'sge', 'slt': 'sgt', 'uge': 'ule', 'ugt': 'ult', 'ule': 'uge', 'ult': 'ugt'}.get(pred, pred)
                                if into_clamp_true is None:
                                    return True
                                # the other side is height + c: row >= height + 0 and row > height - 1 are the same test
                                oth = g.v(g.strip_casts(ops[1 - qi])); c_off = 0
                                if oth is not None and oth.op in ('add', 'sub') and oth.a[1][0] == 'c':
                                    c_off = int(oth.a[1][1]) if oth.op == 'add' else -int(oth.a[1][1])
                                if not into_clamp_true:
                                    pr = {'sge': 'slt', 'slt': 'sge', 'sgt': 'sle', 'sle': 'sgt', 'uge': 'ult', 'ult': 'uge', 'ugt': 'ule', 'ule': 'ugt'}.get(pr, pr)
                                # now: the clamp is entered when  row <pr> height + c_off
                                exact = (pr in ('sge', 'uge') and c_off == 0) or (pr in ('sgt', 'ugt') and c_off == -1)
                                if exact:
                                    return True
    if _nofallback:
        return False
    # guarded by a comparison of the same value
    vals = {tuple(g.strip_casts(['v', x.i])) for x in chain} | {tuple(g.strip_casts(o))}
    for br, succ in g.guard_edges(call.bb.id):
        if not br.a:
            continue
        cc, pred, ops = g.cond(br.a[0])
        if cc is not None and cc.op == 'icmp' and ('field', 'bits_image.height') in g.atoms(br.a[0]):
            for qi, q in enumerate(ops):
                y = g.v(g.strip_casts(q))
                if y is not None and y.op in ('ashr', 'lshr', 'sdiv'):
                    q = y.a[0]
                # the other side must be the height itself (possibly converted to fixed point), not a value that merely was clamped with it
                other = ops[1 - qi] if len(ops) == 2 else None
                oy = g.v(g.strip_casts(other)) if other is not None and other[0] == 'v' else None
                if oy is not None and oy.op in ('shl', 'mul') and oy.a:
                    oy = g.v(g.strip_casts(oy.a[0]))
                is_height = oy is not None and oy.op == 'load' and g.last_field(g.path(oy.a[0])) == 'bits_image.height'
                # ... or a value that is itself clamped exactly against the height (t <= b with b clamped)
                if not is_height and other is not None and other[0] == 'v':
                    is_height = _bounded_by_height(g, call, other, _nofallback=True)
                if tuple(g.strip_casts(q)) in vals and is_height:
                    return True
    return False


def r12_dest_alpha_clip_offset(ck, P, rid='C03-R12'):
    """sibling agreement inside the composite-region function: the destination's alpha map is placed by two statements - its bounds
    rectangle (x, y of the rectangle the region is intersected with) and the translation applied to its clip.  Both say where alpha-map
    pixel (0, 0) lies in destination space, so they are the same linear form (the source and mask alpha-map clips are held to
    + alpha_origin by C03-R6)."""
    R = ck.rule(rid, 'in the composite-region function the translation handed on with the destination alpha map\'s clip is the same linear form as the corner of the rectangle the region is intersected with for that alpha map\'s bounds (alpha-map pixel (0,0) is destination pixel (alpha_origin_x, alpha_origin_y) in both)', floor=2)
    F = find_region_function(P)
    img = [i for i, (n, t) in enumerate(F.params) if 'pixman_image' in t]
    dest = img[2]
    rect = None
    for c in F.calls():
        if c.callee and c.callee.endswith('intersect_rect') and len(c.a) >= 6:
            lx, ly = linear(F, c.a[2]), linear(F, c.a[3])
            if lx and any(t[0] == 'mem' and t[1][0] == 'arg' and t[1][1] == dest for t in lx):
                rect = (lx, ly, c)
    if rect is None:
        raise AnalysisBroken('%s: intersection with the destination alpha map\'s bounds rectangle not found in %s' % (rid, F.name))
    n = 0
    for c in F.calls():
        g = P.resolve(F, c.callee) if c.callee else None
        if g is None or not g.internal or len(c.a) != 4:
            continue
        ch = _image_chain(F, c.a[1])
        if ch is None or ch[0] != dest or 'image_common.alpha_map' not in ch[1]:
            continue
        for axis, argi, ref in (('x', 2, rect[0]), ('y', 3, rect[1])):
            n += 1; ck.saw(F)
            lf = linear(F, c.a[argi])
            what = 'd%s of the dest.alpha_map clip' % axis
            if lf == ref:
                ck.ok(R, what)
            else:
                ck.violation(R, F.name, what, '%s is %s, but the bounds of the same alpha map are placed at %s (%s): the map\'s clip is applied to the region shifted by twice the origin, so pixels the clip admits are dropped and pixels it excludes are drawn' % (what, _lfs(F, lf), _lfs(F, ref), rect[2].loc()), c.loc())
    if n == 0:
        raise AnalysisBroken('%s: the destination alpha map\'s clip is not handed to a clip helper in %s' % (rid, F.name))


def r9_clip_consulted_under_its_flag(ck, P, rid='C03-R9'):
    """T-GRD, interprocedural one level: wherever the library reads an image's clip region (hands it to a callee that does not write it),
    the same image's have_clip_region has been tested - in that function, or at every call site of it.  The region's contents are stale
    once the clip has been reset, and client_clip / clip_sources say something else (whether the clip applies to the image as a source)."""
    from .threads import param_write_summaries
    R = ck.rule(rid, 'every place that reads image_common.clip_region (passes it to a callee that does not write through that parameter) is guarded by a test of the same image\'s have_clip_region, either in the function itself or at each of its call sites; client_clip and clip_sources are no substitute', floor=4)
    W = param_write_summaries(P)
    callers = P.callers()
    def flag_test(f, blockid, root):
        for t, s in f.guard_edges(blockid):
            if not t.a:
                continue
            seen = set(); work = [t.a[0]]
            while work:
                o = work.pop(); y = f.v(o)
                if y is None or y.i in seen:
                    continue
                seen.add(y.i)
                if y.op == 'load':
                    if f.last_field(f.path(y.a[0])) == 'image_common.have_clip_region' and f.root(f.path(y.a[0])) == root:
                        return True
                    continue
                if y.op in ('call', 'phi'):
                    continue
                work.extend(q for q in y.a if q and q[0] == 'v')
        return False
    for f in P.functions():
        for c in f.calls():
            g = P.resolve(f, c.callee) if c.callee else None
            for k, a in enumerate(c.a):
                if not (a and a[0] in ('v', 'a') and f.last_field(f.path(a)) == 'image_common.clip_region'):
                    continue
                if g is None or k in W.get(g, set()):
                    continue                      # maintenance: the callee (re)writes the region
                if any(any(r[0] == 'arg' and r[1] == k for r in common.roots(g, fc.a[0])) for fc in g.calls('free')):
                    continue                      # maintenance: the callee releases the region's storage (fini)
                ck.saw(f)
                root = f.root(f.path(a))
                where = '%s: clip handed to %s at %s' % (f.name, c.callee, c.loc())
                if flag_test(f, c.bb.id, root):
                    ck.ok(R, where, 'guarded in the function'); continue
                ok = False
                if root[0] == 'arg' and not f.exported:
                    sites = [(h, cs) for h in callers.get(f, ()) for cs in h.calls(f.name)]
                    ok = bool(sites)
                    for h, cs in sites:
                        ra = cs.a[root[1]] if root[1] < len(cs.a) else None
                        hr = h.root(h.path(ra)) if ra is not None else None
                        if hr is None or not flag_test(h, cs.bb.id, hr):
                            ok = False
                if ok:
                    ck.ok(R, where, 'guarded at every call site'); continue
                ck.violation(R, f.name, 'clip region read at %s' % c.loc(), '%s hands the image\'s clip region to %s although no test of that image\'s have_clip_region guards the read (neither here nor at every caller): after the clip has been removed the stale rectangles still restrict the drawing, and a clip that was set without client_clip is ignored' % (f.name, c.callee), c.loc())


def r10_region_gets_callers_images(ck, P, rid='C03-R10'):
    """T-WHO: the composite region is computed from the images the caller passed - all three of them.  A mask that is dropped locally
    (because it is opaque and does not change colours) still clips."""
    R = ck.rule(rid, 'every exported drawing entry point hands its own source, mask and destination parameters to the composite-region computation unchanged (not a local copy that some path has set to NULL): an opaque mask does not change colours, but its clip still restricts the region', floor=3)
    F = find_region_function(P)
    img = [i for i, (n, t) in enumerate(F.params) if 'pixman_image' in t]
    n = 0
    for g in P.functions():
        if not g.exported:
            continue
        for c in g.calls(F.name):
            n += 1; ck.saw(g)
            bad = None
            for k in img:
                a = c.a[k]
                if a[0] == 'a' or a[0] == 'n':
                    continue
                y = g.v(a)
                if y is not None and y.op == 'phi':
                    leaves = []; seen = set(); work = [a]
                    while work:
                        o = work.pop(); z = g.v(o)
                        if z is not None and z.op == 'phi':
                            if z.i not in seen:
                                seen.add(z.i); work.extend(z.a)
                        else:
                            leaves.append(o)
                    if any(o[0] == 'n' for o in leaves) and any(o[0] == 'a' for o in leaves):
                        bad = (k, 'a copy of the parameter that some path has replaced by NULL')
                    elif not all(o[0] == 'a' for o in leaves):
                        bad = (k, 'a value that is not the caller\'s parameter on every path')
                else:
                    bad = (k, 'a value other than the caller\'s parameter')
            where = '%s -> %s at %s' % (g.name, F.name, c.loc())
            if bad:
                k, why = bad
                ck.violation(R, g.name, 'image argument %s' % (F.params[k][0] or k), '%s computes the composite region from %s for its %s image: the clip (and alpha-map bounds) of the image the caller passed no longer restrict the drawing on that path, so pixels outside the region the public region query reports are written' % (g.name, why, F.params[k][0] or 'parameter %d' % k), c.loc())
            else:
                ck.ok(R, where)
    if n == 0:
        ck.incomplete(R, 'no exported caller of the composite-region computation found')


def r13_empty_image_never_repeated(ck, P, rid='C04-R13'):
    """T-PATH (partial evaluation): the repeat modes NORMAL / PAD / REFLECT are defined in terms of the image size (modulo, clamp to
    size - 1).  With the assumption 'width == 0 (or height == 0) and repeat != NONE' the gate every source and mask passes must not reach
    its success return, and the glyph entry point that does not go through the gate must not reach a compositing call."""
    R = ck.rule(rid, 'under the assumption that a bits image has width 0 (then: height 0) and a repeat mode other than NONE, the function that admits sources and masks for sampling (it sets FAST_PATH_SAMPLES_COVER_CLIP_*) has no path to a non-zero return, and pixman_composite_glyphs_no_mask has no path to a compositing call: the repeat arithmetic divides by the size (MOD), subtracts it until the coordinate fits, or clamps to size - 1 = -1', floor=4)
    from .. import consts
    C = consts.fast_path_flags()
    cover = C['FAST_PATH_SAMPLES_COVER_CLIP_NEAREST']
    gate = None
    for f in P.functions():
        if f.exported:
            continue
        for x in f.insts():
            if x.op == 'or' and any(a[0] == 'c' and int(a[1]) == cover for a in x.a):
                if any(pt.endswith('pixman_box32*') or 'pixman_box32' in pt for pn, pt in f.params):
                    gate = f
    if gate is None:
        raise AnalysisBroken('%s: the function that sets FAST_PATH_SAMPLES_COVER_CLIP_NEAREST for a source was not found' % rid)
    n = 0
    BITS = P.enum('image_type_t')['BITS']
    def assume(f, root, dim):
        def known(x):
            if x.op == 'load' and f.root(f.path(x.a[0])) == root:
                lf = f.last_field(f.path(x.a[0]))
                if lf == 'bits_image.' + dim:
                    return 0
                if lf == 'image_common.repeat':
                    return 1
                if lf in ('image_common.type', 'bits_image.type') or (lf is None and not f.path(x.a[0])[1] and x.ty == 'i32'):
                    return BITS                      # the type tag is the first member of every alternative of the union
            if x.op == 'icmp' and x.d['p'] in ('eq', 'ne') and any(a[0] == 'n' for a in x.a) and any(a[0] == 'a' and ('arg', a[1]) == root for a in x.a):
                return int(x.d['p'] == 'ne')          # the image is there
            return None
        return known
    # the gate: blocks from which a non-zero value flows into the return
    f = gate; ck.saw(f)
    img = [i for i, (pn, pt) in enumerate(f.params) if 'pixman_image' in pt]
    rets = [x for x in f.insts() if x.op == 'ret' and x.a]
    good = set()
    for r in rets:
        v = f.v(r.a[0])
        if v is not None and v.op == 'phi':
            for a, bb in zip(v.a, v.d['bb']):
                if not (a[0] == 'c' and int(a[1]) == 0):
                    good.add(('edge', bb, v.bb.id))
        elif r.a[0][0] == 'c' and int(r.a[0][1]) != 0:
            good.add(('block', r.bb.id))
    if not good or not img:
        raise AnalysisBroken('%s: success returns of %s not recognised' % (rid, f.name))
    for dim in ('width', 'height'):
        n += 1
        taken = set()
        def on_edge(b, s_, pv):
            taken.add((b, s_))
        hit = common.reach_under(f, assume(f, ('arg', img[0]), dim), {g[1] for g in good if g[0] == 'block'}, on_edge=on_edge)
        ok = not hit and not any(g[0] == 'edge' and (g[1], g[2]) in taken for g in good)
        where = '%s: %s == 0 with a repeat' % (f.name, dim)
        if ok:
            ck.ok(R, where, 'no path to a non-zero return')
        else:
            ck.violation(R, f.name, 'empty image with a repeat (%s == 0)' % dim, '%s can return success for a bits image whose %s is 0 and whose repeat mode is not NONE: the fetchers then compute coordinates modulo 0 (SIGFPE), subtract 0 until the coordinate fits (endless loop) or clamp to pixel -1 / 0 of an image that has no pixels (read outside its storage)' % (f.name, dim), '%s:%d' % (f.unit.name, f.line))
    g = P.fn('pixman_composite_glyphs_no_mask', required=False)
    if g is not None:
        ck.saw(g)
        src = [i for i, (pn, pt) in enumerate(g.params) if 'pixman_image' in pt]
        calls = {c.bb.id for c in g.calls() if c.callee is None and 'callee' in c.d}
        if src and calls:
            for dim in ('width', 'height'):
                n += 1
                hit = common.reach_under(g, assume(g, ('arg', src[0]), dim), calls)
                where = '%s: source %s == 0 with a repeat' % (g.name, dim)
                if not hit:
                    ck.ok(R, where, 'no path to a compositing call')
                else:
                    ck.violation(R, g.name, 'empty source with a repeat (%s == 0)' % dim, '%s reaches a compositing call with a source whose %s is 0 and whose repeat mode is not NONE; this entry point does not pass through %s, so nothing else stops the repeat arithmetic from dividing by zero or padding with a pixel that does not exist' % (g.name, dim, gate.name), '%s:%d' % (g.unit.name, g.line))
    if n < 2:
        raise AnalysisBroken('%s: gate not analysed' % rid)


def r14_hull_needs_constant_sign_of_w(ck, P, rid='C04-R14'):
    """T-GRD: the function that bounds the samples of a request by the hull of its four transformed corners looks, for a transform with a
    non-trivial bottom row, at the homogeneous coordinate of each corner: a zero refuses the request, and so does a sign different from
    the previous corner's (w is linear over the rectangle, so equal signs at the corners mean no pole inside)."""
    R = ck.rule(rid, 'the function that computes the transformed extents of a request from its four corners (it feeds the SAMPLES_COVER_CLIP decision) obtains the homogeneous coordinate of each corner (a call of the non-dividing transform), has no path to a success return when that coordinate is 0, and compares its sign with the sign remembered from the previous corner: the hull of the corners bounds the samples only while w does not change sign across the request', floor=2)
    F = None
    for f in P.functions():
        if f.exported:
            continue
        if any(c.callee == 'pixman_transform_point' for c in f.calls()) and any(x.op == 'store' and (f.last_field(f.path(x.a[1])) or '').startswith('box_48_16.') for x in f.insts()):
            F = f
    if F is None:
        raise AnalysisBroken('%s: the function computing transformed extents (box_48_16) was not found' % rid)
    f = F; ck.saw(f)
    calls3 = [c for c in f.calls() if c.callee == 'pixman_transform_point_3d']
    where = '%s: homogeneous coordinate of the corners' % f.name
    if not calls3:
        ck.violation(R, f.name, 'sign of w at the corners', '%s bounds the samples by the hull of the transformed corners without ever looking at the homogeneous coordinate of a corner (no call of pixman_transform_point_3d): under a projective transform whose w changes sign inside the request the interior maps outside that hull, yet the source is flagged as covering the clip, taken for opaque if it has no alpha, and OVER becomes SRC' % f.name, '%s:%d' % (f.unit.name, f.line))
        return
    ck.ok(R, where, 'obtained with pixman_transform_point_3d')
    # loads of vector[2] of the vector handed to the non-dividing transform
    hv = set()
    for c in calls3:
        if len(c.a) > 1:
            hv.add(f.root(f.path(c.a[1])))
    wloads = [x for x in f.insts() if x.op == 'load' and f.root(f.path(x.a[0])) in hv and [str(q) for q in f.path(x.a[0])[1]][-2:] == ['pixman_vector.vector', '[2]']]
    if not wloads:
        ck.violation(R, f.name, 'sign of w at the corners', '%s calls the non-dividing transform but never reads the homogeneous coordinate it produces' % f.name, calls3[0].loc()); return
    wl = {x.i for x in wloads}
    # (1) w == 0 refuses
    tpar = [i for i, (pn, pt) in enumerate(f.params) if 'pixman_transform' in pt]
    def known(x):
        if x.i in wl:
            return 0
        if x.op == 'call' and x.callee in ('pixman_transform_point_3d', 'pixman_transform_point'):
            return 1
        if x.op == 'icmp' and x.d['p'] in ('eq', 'ne') and any(a[0] == 'n' for a in x.a) and any(a[0] == 'a' and a[1] in tpar for a in x.a):
            return int(x.d['p'] == 'ne')              # there is a transform
        return None
    rets = [x for x in f.insts() if x.op == 'ret' and x.a]
    good_edges = set(); good_blocks = set()
    for r in rets:
        v = f.v(r.a[0])
        if v is not None and v.op == 'phi':
            for a, bb in zip(v.a, v.d['bb']):
                if not (a[0] == 'c' and int(a[1]) == 0):
                    good_edges.add((bb, v.bb.id))
        elif r.a[0][0] == 'c' and int(r.a[0][1]) != 0:
            good_blocks.add(r.bb.id)
    taken = set()
    hit = common.reach_under(f, known, good_blocks, on_edge=lambda b, s_, pv: taken.add((b, s_)))
    # the transform must be projective for the test to be required: assume the bottom-row loads non-zero
    if hit or (good_edges & taken):
        # retry with the bottom row assumed non-trivial
        def known2(x):
            k = known(x)
            if k is not None:
                return k
            if x.op == 'load':
                st = [str(q) for q in f.path(x.a[0])[1]]
                if 'pixman_transform.matrix' in st and len(st) >= 3 and st[-2] == '[2]' and st[-1] in ('[0]', '[1]'):
                    return 1
            return None
        taken.clear()
        hit = common.reach_under(f, known2, good_blocks, on_edge=lambda b, s_, pv: taken.add((b, s_)))
    if hit or (good_edges & taken):
        ck.violation(R, f.name, 'w == 0 at a corner', '%s can report extents although the homogeneous coordinate of a corner is 0 (the corner is mapped to infinity)' % f.name, wloads[0].loc())
    else:
        ck.ok(R, '%s: w == 0 at a corner refuses the request' % f.name)
    # (2) the sign is remembered across corners and compared
    signs = [x for x in f.insts() if x.op == 'icmp' and x.d['p'] in ('slt', 'sgt', 'sle', 'sge') and any(a[0] == 'v' and a[1] in wl for a in x.a) and any(a[0] == 'c' and int(a[1]) == 0 for a in x.a)]
    remembered = False
    def flows(s_, through_phi):
        """values the sign test s_ flows into through casts (and, if asked, phis): ids"""
        out = {s_.i}; work = [s_]
        while work:
            y = work.pop()
            for u_ in f.users(y):
                if u_.i in out:
                    continue
                if u_.op in ('zext', 'sext', 'trunc', 'select') or (through_phi and u_.op == 'phi'):
                    out.add(u_.i); work.append(u_)
        return out
    direct = set(); carried = set()
    for s_ in signs:
        direct |= flows(s_, False)
        carried |= {i for i in flows(s_, True) if f.by_id[i].op == 'phi'}
    for c in f.insts():
        if c.op == 'icmp' and c.d['p'] in ('eq', 'ne') and len(c.a) == 2 and all(a[0] == 'v' for a in c.a):
            a, b = c.a[0][1], c.a[1][1]
            if (a in direct and b in carried) or (b in direct and a in carried):
                remembered = True
    if remembered:
        ck.ok(R, '%s: the sign of w is carried from corner to corner and compared' % f.name)
    else:
        ck.violation(R, f.name, 'sign of w compared across corners', '%s does not compare the sign of the homogeneous coordinate of a corner with the sign at the previous corner: a request across which w changes sign is bounded by the hull of its corners although its interior maps outside it' % f.name, wloads[0].loc())


def r15_empty_image_not_addressed_directly(ck, P, rid='C04-R15'):
    """T-PATH: every fast path and every covering iterator requires FAST_PATH_NO_ACCESSORS of an image whose pixels it addresses itself.
    Under 'bits image, no accessors, width (height) = 0' the flag computation cannot reach the store of the flags word except through a
    block that clears that flag - an image without pixels has none that could be addressed."""
    from .. import consts
    R = ck.rule(rid, 'in the function that computes image_common.flags, with the assumptions "bits image without accessors whose width (then: height) is 0", every path to the store of the flags word passes through a block that clears FAST_PATH_NO_ACCESSORS: the fast paths and covering iterators, all of which require that flag, address pixels of their source without testing that there is one', floor=2)
    C = consts.fast_path_flags()
    NOACC = C['FAST_PATH_NO_ACCESSORS']
    f = None
    for h in P.functions():
        if any(x.op == 'store' and h.last_field(h.path(x.a[1])) == 'image_common.flags' for x in h.insts()) and any(x.op == 'store' and h.last_field(h.path(x.a[1])) == 'image_common.extended_format_code' for x in h.insts()):
            f = h
    if f is None:
        raise AnalysisBroken('%s: the function that computes image_common.flags was not found' % rid)
    ck.saw(f)
    stores = {x.bb.id for x in f.insts() if x.op == 'store' and f.last_field(f.path(x.a[1])) == 'image_common.flags'}
    def clears_noacc(x):
        for a in x.a:
            if a[0] == 'c':
                cleared = ~int(a[1]) & 0xffffffff
                if cleared & NOACC and bin(cleared).count('1') <= 4:         # flags &= ~(a few flag bits), not a field mask
                    return True
        return False
    clears = {x.bb.id for x in f.insts() if x.op == 'and' and clears_noacc(x)}
    if not clears:
        raise AnalysisBroken('%s: no block clearing FAST_PATH_NO_ACCESSORS found in %s' % (rid, f.name))
    BITS = P.enum('image_type_t')['BITS']
    for dim in ('width', 'height'):
        def known(x, dim=dim):
            if x.op == 'load':
                lf = f.last_field(f.path(x.a[0]))
                if lf == 'bits_image.' + dim:
                    return 0
                if lf in ('bits_image.read_func', 'bits_image.write_func'):
                    return 0
                if lf in ('image_common.type', 'bits_image.type') or (lf is None and not f.path(x.a[0])[1] and x.ty == 'i32' and f.root(f.path(x.a[0]))[0] == 'arg'):
                    return BITS
            return None
        hit = common.reach_under(f, known, stores, avoid=clears - stores)
        # a clear in the storing block itself counts as passed
        hit = {b for b in hit if b not in clears}
        where = '%s: bits image without accessors, %s == 0' % (f.name, dim)
        if hit:
            ck.violation(R, f.name, 'empty image keeps NO_ACCESSORS (%s == 0)' % dim, '%s can store the flags of a bits image whose %s is 0 without having cleared FAST_PATH_NO_ACCESSORS: the scaled and covering fast paths then address pixels of an image that has none (the 0-wide source of a scaled bilinear composite writes one pixel past the destination span and reads src[0] / src[-1])' % (f.name, dim), '%s:%d' % (f.unit.name, f.line))
        else:
            ck.ok(R, where, 'FAST_PATH_NO_ACCESSORS cleared on every path')


def r16_translation_offset_in_wide_type(ck, P, rid='C04-R16'):
    """T-WID: a transform's matrix elements are arbitrary 16.16 values (analyze_extent constrains the *sample positions*, not the
    elements); code that turns an element into an integer coordinate by its own arithmetic, outside pixman_transform_point*, must add its
    rounding offset in a type wider than the element."""
    R = ck.rule(rid, 'every addition of a non-zero constant to an element loaded from a pixman_transform_t matrix is performed in 64 bits (the element is widened first): in 32 bits a translation of 32767.5 or more plus the rounding offset 0x7fff wraps negative, although analyze_extent accepted the request because every sample lies inside the source, and the rotate fast paths address the source 65536 pixels before the row', floor=12)
    n = 0
    for f in P.functions():
        for x in f.insts():
            if x.op not in ('add', 'sub'):
                continue
            for i, a in enumerate(x.a):
                if a[0] != 'c' or int(a[1]) == 0:
                    continue
                y = f.v(f.strip_casts(x.a[1 - i]))
                if y is None or y.op != 'load' or not (f.last_field(f.path(y.a[0])) or '').startswith('pixman_transform.matrix'):
                    continue
                n += 1; ck.saw(f)
                where = '%s: %s %d at %s' % (f.name, x.op, int(a[1]), x.loc())
                if x.ty == 'i64':
                    ck.ok(R, where, 'in 64 bits')
                else:
                    ck.violation(R, f.name, 'offset added to a matrix element', '%s adds the constant %d to an element of the transform matrix in %s: the element may be anywhere in the 16.16 range (a translation of 32767.5 is accepted when the samples lie inside the source), the sum wraps, and the coordinate computed from it addresses memory far outside the image' % (f.name, int(a[1]), x.ty), x.loc())
    if n == 0:
        raise AnalysisBroken('%s: no constant added to a transform matrix element anywhere' % rid)


def r_wide_division_numerator(ck, P, rid='C02-R28'):
    """T-WID: where the library divides in 64 bits it does so because the numerator does not fit in 32 (16.16 positions times sizes, sums
    of an image width in 16.16 and a start position, ...).  A numerator that is formed in 32 bits and widened afterwards has already
    wrapped: the 64-bit division is then a belief the code itself contradicts (cast placed after the operation instead of before)."""
    R = ck.rule(rid, 'no 64-bit division or remainder takes a numerator (through 64-bit additions of further terms) that is a 32-bit sum, difference, product or shift of non-constant operands widened afterwards: pad_repeat_get_scanline_bounds forms max_vx - vx + unit_x - 1 from an image width in 16.16 and a start position, which passes 2^31 for a source of 16384 pixels and more, and the scaled fast paths then take the rest of the row for padding while the general path samples it', floor=50)
    def narrow(f, o, d=0):
        y = f.v(o) if o[0] == 'v' else None
        if y is None or d > 8:
            return None
        if y.op == 'sext' and y.ty == 'i64':
            z = f.v(y.a[0])
            # peel additions of constants (n - 1 alone is not a sum that outgrows its type)
            for _ in range(4):
                if z is not None and z.op in ('add', 'sub') and z.ty == 'i32' and sum(1 for a in z.a if a[0] == 'c') == 1:
                    z = f.v([a for a in z.a if a[0] != 'c'][0])
                else:
                    break
            if z is not None and z.op in ('add', 'sub', 'mul', 'shl') and z.ty == 'i32' and not any(a[0] == 'c' for a in z.a):
                return z
            return None
        if y.op in ('add', 'sub') and y.ty == 'i64':
            for a in y.a:
                r = narrow(f, a, d + 1)
                if r is not None:
                    return r
        return None
    n = 0
    for f in P.functions():
        for x in f.insts():
            if x.op not in ('sdiv', 'srem', 'udiv', 'urem') or x.ty != 'i64':
                continue
            n += 1; ck.saw(f)
            z = narrow(f, x.a[0])
            where = '%s: %s at %s' % (f.name, x.op, x.loc())
            if z is None:
                ck.ok(R, where, 'numerator formed in 64 bits')
            else:
                ck.violation(R, f.name, 'numerator of the 64-bit %s' % x.op, '%s divides in 64 bits (%s) a numerator whose %s was computed in 32 bits (%s) and widened afterwards: the sum wraps before the cast, the quotient is that of the wrapped value, and what is derived from it (padding widths, sample positions) is wrong for large images or positions while small ones behave' % (f.name, x.loc(), z.op, z.loc()), z.loc())
    if n == 0:
        raise AnalysisBroken('%s: no 64-bit division anywhere' % rid)


def r_coordinate_split_floors(ck, P, rid='C03-R16'):
    """Coordinates are signed (a fill may start left of `bits`, a dither offset may be negative).  Splitting one into a word index and a bit
    offset, or reducing it to a table index, needs floor semantics: x >> 5 with x & 31, y & 63.  C's / and % truncate towards zero: for
    x = -1 they give word 0, bit -1 where the pixel lives in word -1, bit 31."""
    R = ck.rule(rid, 'wherever a function splits or reduces a signed coordinate parameter (x, y: int) by a power of two, it uses an arithmetic shift and a mask, never signed division or remainder: x / 32 and x % 32 address the wrong word with a negative bit offset for x < 0 (pixman_fill1 with bits pointing into a wider bitmap), and (y % 64) * 64 + x % 64 is a negative index into the blue-noise table for a negative dither offset', floor=10)
    n = 0
    for f in P.functions():
        coord = {i for i, (nm, ty) in enumerate(f.params) if nm in ('x', 'y') and ty == 'i32'}
        if not coord:
            continue
        for x in f.insts():
            if x.op not in ('ashr', 'and', 'sdiv', 'srem') or x.a[1][0] != 'c':
                continue
            o = f.strip_casts(x.a[0])
            y = f.v(o) if o[0] == 'v' else None
            base = o
            if y is not None and y.op in ('add', 'sub') and any(a[0] == 'c' for a in y.a):
                base = [a for a in y.a if a[0] != 'c'][0]
            if base[0] != 'a' or base[1] not in coord:
                continue
            k = int(x.a[1][1])
            if x.op in ('sdiv', 'srem') and not (k > 1 and k & (k - 1) == 0):
                continue
            n += 1; ck.saw(f)
            where = '%s: %s %s %d at %s' % (f.name, f.params[base[1]][0], x.op, k, x.loc())
            if x.op in ('ashr', 'and'):
                ck.ok(R, where, 'floor semantics')
            else:
                ck.violation(R, f.name, 'coordinate %s %s %d' % (f.params[base[1]][0], '/' if x.op == 'sdiv' else '%', k), '%s reduces its signed coordinate %s with %s %d (%s): for a negative coordinate the quotient is rounded towards zero and the remainder is negative, so the word / table entry addressed is not the one the coordinate names - pixels next to the requested rectangle are written, or a table is read in front of its first entry' % (f.name, f.params[base[1]][0], 'a signed division by' if x.op == 'sdiv' else 'a signed remainder modulo', k, x.loc()), x.loc())
    if n == 0:
        raise AnalysisBroken('%s: no coordinate parameter is split anywhere' % rid)


def r_dispatch_needs_extent_analysis(ck, P, rid='C04-R19'):
    """T-GRD across entry points: the composite routines assume what the extent analysis establishes about a source (an image narrower
    than 0x7fff, transformed extents that fit in 16.16 with a margin).  Whoever looks a routine up and calls it has put the source of
    that very request through the analysis first, and goes on only when it answered TRUE."""
    R = ck.rule(rid, 'in every function that obtains a composite routine from _pixman_implementation_lookup_composite and calls it, each such indirect call is reached only through an edge on which a call of the extent analysis (the function that grants SAMPLES_COVER_CLIP, or a wrapper that returns its result) for an image parameter has answered non-zero: pixman_composite_glyphs_no_mask dispatched the scaled bilinear fast paths for a 40000-pixel PAD source that pixman_image_composite32 refuses, and the MMX scanline, stepping x in 16.16, read 128 KB in front of the source', floor=2)
    C = consts.fast_path_flags()
    cover = C['FAST_PATH_SAMPLES_COVER_CLIP_NEAREST']
    A = {f for f in P.functions() if not f.exported and f.type.startswith('i32 ') and any(x.op == 'or' and any(a[0] == 'c' and int(a[1]) == cover for a in x.a) for x in f.insts())}
    if not A:
        raise AnalysisBroken('%s: the extent analysis was not found' % rid)
    # wrappers: functions that return the result of a call to it
    grew = True
    while grew:
        grew = False
        for f in P.functions():
            if f in A:
                continue
            cs = [c for c in f.calls() if isinstance(c.callee, str) and P.resolve(f, c.callee) in A]
            if cs and any(t.a and t.a[0][0] == 'v' and t.a[0][1] in {c.i for c in cs} for t in f.rets()):
                A = A | {f}; grew = True
    n = 0
    for f in P.functions():
        if not any(isinstance(c.callee, str) and c.callee == '_pixman_implementation_lookup_composite' for c in f.calls()):
            continue
        # only where the request's source is an image the caller handed in as it is (a parameter stored into info.src_image); the
        # tiled-repeat path and the glyph accumulation dispatch with sources they have built or reduced themselves (untransformed,
        # coordinates inside the image)
        if not any(x.op == 'store' and (f.last_field(f.path(x.a[1])) or '').endswith('.src_image') and f.strip_casts(x.a[0])[0] == 'a' for x in f.insts()):
            continue
        for c in f.calls():
            if c.callee is not None or 'callee' not in c.d:
                continue
            y = f.v(c.d['callee']) if c.d['callee'][0] == 'v' else None
            if y is None or y.op != 'load' or f.root(f.path(y.a[0]))[0] != 'alloca':
                continue
            n += 1; ck.saw(f)
            ok = False
            for t, s in f.guard_edges(c.bb.id):
                if t.op != 'br' or not t.a:
                    continue
                cc, p, ops = f.cond(t.a[0])
                if cc is None:
                    continue
                cands = [cc] if cc.op == 'call' else [f.v(o) for o in (ops or []) if o[0] == 'v']
                for q in cands:
                    if q is not None and q.op == 'call' and isinstance(q.callee, str) and P.resolve(f, q.callee) in A:
                        taken_true = t.d['succ'][0] == s
                        nonzero = (p in ('is', 'ne') and taken_true) or (p in ('not', 'eq') and not taken_true)
                        if nonzero:
                            ok = True
            where = '%s: composite routine called at %s' % (f.name, c.loc())
            if ok:
                ck.ok(R, where, 'after the extent analysis')
            else:
                ck.violation(R, f.name, 'composite routine dispatched without extent analysis', '%s calls a composite routine it looked up itself (%s) without having put the request\'s source through the extent analysis: sources and extents that pixman_image_composite32 refuses (an image of 0x7fff pixels and more, transformed extents beyond the 16.16 range) reach fast paths that step their coordinates in 32 bits, wrap, and read far outside the image' % (f.name, c.loc()), c.loc())
    if n == 0:
        raise AnalysisBroken('%s: no dispatch of a looked-up composite routine found' % rid)
