/* F15: HSL operators evaluated in the floating-point pipeline with a mask: the source's blue is not multiplied by the mask
 * and green is multiplied twice (MAKE_NON_SEPARABLE_PDF_COMBINERS, pixman-combine-float.c).
 * Reference: the same composite without a mask, with the source pre-multiplied by the mask alpha by hand (src IN mask).
 * build: cc -I/repo/pixman -I/repo/_build/pixman probe_F15_hsl_float_mask.c -L/repo/_build/pixman -lpixman-1 -lm */
#include <stdio.h>
#include <math.h>
#include <pixman.h>

int main (void)
{
    static const pixman_op_t ops[] = { PIXMAN_OP_HSL_HUE, PIXMAN_OP_HSL_SATURATION, PIXMAN_OP_HSL_COLOR, PIXMAN_OP_HSL_LUMINOSITY };
    static const char *names[] = { "HSL_HUE", "HSL_SATURATION", "HSL_COLOR", "HSL_LUMINOSITY" };
    int bad = 0, i, c;
    for (i = 0; i < 4; i++)
    {
	float s[4] = { 0.2f, 0.5f, 0.9f, 1.0f };            /* r g b a, premultiplied, rgba_float */
	float sm[4], d1[4] = { 0.7f, 0.3f, 0.1f, 1.0f }, d2[4] = { 0.7f, 0.3f, 0.1f, 1.0f };
	float m = 0.5f;
	float mk[4] = { 0, 0, 0, m };
	pixman_image_t *src, *srcm, *mask, *dst1, *dst2;
	for (c = 0; c < 4; c++)
	    sm[c] = s[c] * m;
	src = pixman_image_create_bits (PIXMAN_rgba_float, 1, 1, (uint32_t *)s, 16);
	srcm = pixman_image_create_bits (PIXMAN_rgba_float, 1, 1, (uint32_t *)sm, 16);
	mask = pixman_image_create_bits (PIXMAN_rgba_float, 1, 1, (uint32_t *)mk, 16);
	dst1 = pixman_image_create_bits (PIXMAN_rgba_float, 1, 1, (uint32_t *)d1, 16);
	dst2 = pixman_image_create_bits (PIXMAN_rgba_float, 1, 1, (uint32_t *)d2, 16);
	pixman_image_composite32 (ops[i], src, mask, dst1, 0, 0, 0, 0, 0, 0, 1, 1);
	pixman_image_composite32 (ops[i], srcm, NULL, dst2, 0, 0, 0, 0, 0, 0, 1, 1);
	for (c = 0; c < 4; c++)
	    if (fabsf (d1[c] - d2[c]) > 1e-4f)
	    {
		printf ("%s: channel %d masked composite gives %f, src*mask without mask gives %f\n", names[i], c, d1[c], d2[c]);
		bad++;
	    }
	pixman_image_unref (src); pixman_image_unref (srcm); pixman_image_unref (mask); pixman_image_unref (dst1); pixman_image_unref (dst2);
    }
    printf (bad ? "FAIL: %d channel values differ\n" : "PASS\n", bad);
    return bad != 0;
}
