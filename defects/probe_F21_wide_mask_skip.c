#include <stdio.h>
#include <stdlib.h>
#include <string.h>
#include "pixman.h"
/* wide pipeline + transformed bits source + a8 mask all 0xff: every destination pixel must equal the source pixel */
int main(void)
{
    enum { W = 16, H = 2 };
    uint32_t src[W * H], dst[W * H]; uint8_t msk[W * H];
    int i, bad = 0;
    for (i = 0; i < W * H; i++) { src[i] = 0xff000000u | (i * 0x0b0d11u & 0xffffff); msk[i] = 0xff; dst[i] = 0; }
    pixman_image_t *s = pixman_image_create_bits (PIXMAN_a8r8g8b8, W, H, src, W * 4);
    pixman_image_t *m = pixman_image_create_bits (PIXMAN_a8, W, H, (uint32_t *) msk, W);
    pixman_image_t *d = pixman_image_create_bits (PIXMAN_a2r10g10b10, W, H, dst, W * 4);
    pixman_transform_t t; pixman_transform_init_identity (&t);
    /* a non-trivial but pixel-exact transform: x mirrored -> general/affine per-pixel fetcher */
    t.matrix[0][0] = -pixman_fixed_1; t.matrix[0][2] = pixman_int_to_fixed (W);
    pixman_image_set_transform (s, &t);
    pixman_image_set_filter (s, PIXMAN_FILTER_NEAREST, NULL, 0);
    pixman_image_composite32 (PIXMAN_OP_SRC, s, m, d, 0, 0, 0, 0, 0, 0, W, H);
    for (i = 0; i < W * H; i++)
    {
        int x = i % W, y = i / W; uint32_t sp = src[y * W + (W - 1 - x)];
        uint32_t r = (sp >> 16) & 0xff, g = (sp >> 8) & 0xff, b = sp & 0xff;
        uint32_t want = (3u << 30) | (((r << 2) | (r >> 6)) << 20) | (((g << 2) | (g >> 6)) << 10) | ((b << 2) | (b >> 6));
        if (dst[i] != want) { if (bad < 6) printf ("pixel (%d,%d): got %08x want %08x\n", x, y, dst[i], want); bad++; }
    }
    printf ("%s: %d of %d pixels wrong\n", bad ? "FAIL" : "PASS", bad, W * H);
    return bad != 0;
}
