#include <stdio.h>
#include "pixman.h"
/* F23: intersecting with a rectangle of zero width or height gives the empty region */
int main(void)
{
    int bad = 0;
    pixman_region32_t a, d, e;
    pixman_region32_init_rect (&a, 0, 0, 10, 10);
    pixman_region32_init (&d); pixman_region32_init (&e);
    pixman_region32_intersect_rect (&d, &a, 5, 2, 0, 5);
    if (pixman_region32_not_empty (&d)) { pixman_box32_t *x = pixman_region32_extents (&d); printf ("intersect_rect with width 0: not empty, extents %d %d %d %d, n_rects %d, equal(empty)=%d, selfcheck=%d\n", x->x1, x->y1, x->x2, x->y2, pixman_region32_n_rects (&d), pixman_region32_equal (&d, &e), pixman_region32_selfcheck (&d)); bad++; }
    {
        pixman_region16_t a16, d16;
        pixman_region_init_rect (&a16, 0, 0, 10, 10); pixman_region_init (&d16);
        pixman_region_intersect_rect (&d16, &a16, 1, 1, 4, 0);
        if (pixman_region_not_empty (&d16)) { printf ("region16 intersect_rect with height 0: not empty\n"); bad++; }
    }
    {
        pixman_region32_t inv; pixman_box32_t box = { 5, 5, 5, 8 };
        pixman_region32_init (&inv);
        pixman_region32_inverse (&inv, &e, &box);
        if (pixman_region32_not_empty (&inv)) { printf ("inverse of the empty region within an empty box: not empty (n_rects %d)\n", pixman_region32_n_rects (&inv)); bad++; }
    }
    printf ("%s\n", bad ? "FAIL" : "PASS");
    return bad != 0;
}
