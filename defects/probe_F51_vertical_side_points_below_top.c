/* F51 (seeding sub-agent's suspect2.c; comparison and exit status added): the abscissa of a side depends on where its defining points lie.
 *
 * pixman_edge_init() starts an edge with dx >= 0 at (x_top, e = -dy), a state
 * that is not normalised (all later states have -dy < e <= 0).  Stepping such
 * an edge *upwards* (upper defining point below the top of the trapezoid,
 * pixman_edge_step with n < 0) normalises it to (x_top - 1, e = 0), i.e. a
 * vertical side moves left by 1/65536 compared with the same vertical line
 * given by points at/above the top.
 *
 * With the left side at x = 2.5 + 1/65536 the centre of pixel column 2
 * (x = 2.5) is outside the trapezoid, but it is set when the side is given by
 * points below the top.
 */
#include <stdio.h>
#include <string.h>
#include <stdlib.h>
#include <unistd.h>
#include "pixman.h"

#define W 32
#define H 8
#define F(x) ((pixman_fixed_t) ((x) * 65536))

static char shape[2][H][10];
static int nshape;

static void
rasterize (const char *title, const pixman_trapezoid_t *t)
{
    uint32_t bits[H];
    pixman_image_t *img;
    int x, y;

    memset (bits, 0, sizeof bits);
    img = pixman_image_create_bits (PIXMAN_a1, W, H, bits, 4);
    pixman_rasterize_trapezoid (img, t, 0, 0);
    printf ("%s\n", title);
    for (y = 0; y < H; y += 3)
    {
	printf ("  row %d: ", y);
	for (x = 0; x < 10; x++)
	{
	    pixman_image_t *one;
	    uint32_t px = 0;
	    /* read the pixel back through the library, independent of the
	     * bit order of a1 */
	    one = pixman_image_create_bits (PIXMAN_a8r8g8b8, 1, 1, &px, 4);
	    pixman_image_composite32 (PIXMAN_OP_SRC, img, NULL, one,
				      x, y, 0, 0, 0, 0, 1, 1);
	    printf ("%c", (px >> 24) ? '#' : '.');
	    shape[nshape][y][x] = (px >> 24) ? '#' : '.';
	    pixman_image_unref (one);
	}
	printf ("\n");
    }
    pixman_image_unref (img);
    nshape++;
}

int
main (void)
{
    pixman_trapezoid_t t;

    alarm (20);

    t.top = F (0);
    t.bottom = F (8);
    t.right.p1.x = F (6);	t.right.p1.y = F (0);
    t.right.p2.x = F (6);	t.right.p2.y = F (8);

    t.left.p1.x = F (2.5) + 1;	t.left.p1.y = F (0);
    t.left.p2.x = F (2.5) + 1;	t.left.p2.y = F (8);
    rasterize ("left side x = 2.5 + 1/65536 given by points at y = 0 and y = 8:", &t);

    t.left.p1.y = F (4);
    rasterize ("the same vertical line given by points at y = 4 and y = 8:", &t);
    if (memcmp (shape[0], shape[1], sizeof shape[0]))
    {
	printf ("FAIL: the same line gives different coverage\n");
	return 1;
    }
    printf ("PASS\n");
    return 0;
}
