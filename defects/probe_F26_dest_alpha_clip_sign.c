/* F26: _pixman_compute_composite_region32 translates the destination alpha map's clip by -origin, its bounds by +origin.
 * alpha map 8x8 attached at origin (4,4) with clip {0,0,2,2} (alpha-map space) covers destination pixels [4,6)x[4,6).
 * OVER of an opaque solid onto the whole destination must therefore change exactly those 4 pixels. */
#include <stdio.h>
#include <string.h>
#include <pixman.h>
int main(void){
    uint32_t d[16*16]; uint8_t a[8*8];
    memset(d,0,sizeof d); memset(a,0,sizeof a);
    pixman_image_t *dst=pixman_image_create_bits(PIXMAN_a8r8g8b8,16,16,d,64);
    pixman_image_t *am=pixman_image_create_bits(PIXMAN_a8,8,8,(uint32_t*)a,8);
    pixman_region32_t clip; pixman_region32_init_rect(&clip,0,0,2,2);
    pixman_image_set_clip_region32(am,&clip);
    pixman_image_set_alpha_map(dst,am,4,4);
    pixman_color_t c={0xffff,0xffff,0xffff,0xffff};
    pixman_image_t *s=pixman_image_create_solid_fill(&c);
    pixman_image_composite32(PIXMAN_OP_SRC,s,NULL,dst,0,0,0,0,0,0,16,16);
    int n=0,bad=0;
    for(int y=0;y<16;y++)for(int x=0;x<16;x++){int in=(x>=4&&x<6&&y>=4&&y<6); int ch=(d[y*16+x]!=0); if(ch)n++; if(ch!=in)bad++;}
    printf("changed=%d wrong=%d\n",n,bad);
    puts(bad?"FAIL":"PASS"); return bad?1:0;
}
