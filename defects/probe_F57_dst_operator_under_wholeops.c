/*
 * suspect1: PIXMAN_OP_DST must leave the destination alone.  The noop
 * implementation does that, but PIXMAN_DISABLE=wholeops removes its fast path
 * table, so the request reaches general_composite_rect, which fetches the
 * destination and stores it back.  For an indexed destination whose palette is
 * not invertible (two indices with one colour, ent[] pointing at the first)
 * the store rewrites the index.  Prints what each configuration leaves behind.
 */
#define _GNU_SOURCE
#include <stdio.h>
#include <stdlib.h>
#include <string.h>
#include <stdint.h>
#include <unistd.h>
#include "pixman.h"

#define DW 24
#define DH 3

static uint32_t rnd_state = 0x12345678;
static uint32_t
rnd (void)
{
    rnd_state = rnd_state * 1664525u + 1013904223u;
    return rnd_state >> 8;
}

static void
dump (const char *tag, int a, int b, const uint16_t *p, int n)
{
    int i;
    printf ("R %s %d %d:", tag, a, b);
    for (i = 0; i < n; ++i)
	printf (" %04x", p[i]);
    printf ("\n");
}

static int
child (void)
{
    static uint32_t dbits[8];
    static uint32_t sbits[32];
    static pixman_indexed_t pal;
    uint8_t *d8 = (uint8_t *)dbits;
    uint16_t d16[32];
    pixman_image_t *dst, *src;
    int i;

    for (i = 0; i < 256; ++i)
	pal.rgba[i] = 0xff000000 | ((i / 2) * 0x020202);	/* indices 2k and 2k+1 share a colour */
    for (i = 0; i < 32768; ++i)
    {
	int g = ((i >> 5) & 0x1f) << 3;				/* 15 bit rgb -> grey level */
	pal.ent[i] = (g / 2) * 2;				/* always the even index */
    }
    pal.color = 1;

    for (i = 0; i < 32; ++i)
	d8[i] = i * 3 + 1;
    dst = pixman_image_create_bits (PIXMAN_c8, 32, 1, dbits, 32);
    src = pixman_image_create_bits (PIXMAN_a8r8g8b8, 32, 1, sbits, 128);
    pixman_image_set_indexed (dst, &pal);

    pixman_image_composite32 (PIXMAN_OP_DST, src, NULL, dst, 0, 0, 0, 0, 0, 0, 32, 1);

    for (i = 0; i < 32; ++i)
	d16[i] = d8[i];
    dump ("DST onto c8", 0, 0, d16, 32);
    return 0;
}

static char *
run_config (const char *self, const char *disable)
{
    char cmd[4400];
    char line[8192];
    char *res = NULL;
    size_t len = 0;
    FILE *f;

    if (disable[0])
	setenv ("PIXMAN_DISABLE", disable, 1);
    else
	unsetenv ("PIXMAN_DISABLE");

    snprintf (cmd, sizeof cmd, "'%s' child", self);
    f = popen (cmd, "r");
    if (!f)
	return NULL;
    while (fgets (line, sizeof line, f))
    {
	size_t l;
	if (line[0] != 'R' || line[1] != ' ')
	    continue;			/* "pixman: Disabled ..." chatter */
	l = strlen (line);
	res = realloc (res, len + l + 1);
	memcpy (res + len, line, l + 1);
	len += l;
    }
    if (pclose (f) != 0)
    {
	free (res);
	return NULL;
    }
    return res;
}

static void
report_first_difference (const char *a, const char *b)
{
    const char *la = a, *lb = b;
    while (*la && *lb)
    {
	const char *ea = strchr (la, '\n'), *eb = strchr (lb, '\n');
	size_t na = ea ? (size_t)(ea - la) : strlen (la);
	size_t nb = eb ? (size_t)(eb - lb) : strlen (lb);
	if (na != nb || memcmp (la, lb, na))
	{
	    printf ("  reference: %.*s\n", (int)na, la);
	    printf ("  this one : %.*s\n", (int)nb, lb);
	    return;
	}
	la += na + 1;
	lb += nb + 1;
    }
}

int
main (int argc, char **argv)
{
    static const char *configs[] = { "", "sse2", "sse2 mmx", "sse2 mmx fast", "wholeops" };
    char self[4096];
    char *ref = NULL;
    ssize_t n;
    int i, bad = 0;

    alarm (120);

    if (argc > 1 && !strcmp (argv[1], "child"))
	return child ();

    n = readlink ("/proc/self/exe", self, sizeof self - 1);
    if (n <= 0)
    {
	printf ("FAIL: cannot find my own executable\n");
	return 2;
    }
    self[n] = 0;

    for (i = 0; i < (int)(sizeof configs / sizeof configs[0]); ++i)
    {
	char *r = run_config (self, configs[i]);
	if (!r)
	{
	    printf ("FAIL: child with PIXMAN_DISABLE=\"%s\" did not finish\n", configs[i]);
	    return 2;
	}
	if (!ref)
	    ref = r;
	else if (strcmp (ref, r))
	{
	    printf ("DIFFERENT: PIXMAN_DISABLE=\"%s\" draws different pixels than the default implementation:\n",
		    configs[i]);
	    report_first_difference (ref, r);
	    bad = 1;
	}
    }

    if (bad)
	return 1;
    printf ("all configurations agree\n");
    return 0;
}
