#include <stdio.h>
#include <stdlib.h>
#include <string.h>
#include "pixman.h"
#define F(x) pixman_int_to_fixed(x)
int main(){
  pixman_triangle_t t = { {F(0),F(0)}, {F(8),F(0)}, {F(0),F(8)} };
  pixman_image_t *a = pixman_image_create_bits(PIXMAN_a8, 16,16,NULL,0);
  pixman_image_t *b = pixman_image_create_bits(PIXMAN_a8, 16,16,NULL,0);
  pixman_add_triangles(a, 65536+2, 2, 1, &t);   /* far outside: nothing should be drawn */
  int n=0; uint8_t *p=(uint8_t*)pixman_image_get_data(a); for(int i=0;i<16*16;i++) n+=p[i]!=0;
  printf("add_triangles x_off=65538: %d pixels touched (a shift by 65538 px leaves a 16x16 image untouched)\n", n);
  /* composite_trapezoids with large x_dst */
  pixman_trapezoid_t tr = { F(0), F(8), {{F(32760),F(0)},{F(32760),F(8)}}, {{F(32767),F(0)},{F(32767),F(8)}} };
  pixman_color_t w={0xffff,0xffff,0xffff,0xffff}; pixman_image_t *s=pixman_image_create_solid_fill(&w);
  pixman_image_t *d = pixman_image_create_bits(PIXMAN_a8, 64,16,NULL,0);
  pixman_composite_trapezoids(PIXMAN_OP_OVER, s, d, PIXMAN_a8, 0,0, 32776+10, 0, 1, &tr); /* x = 32760+32786 = 65546 -> wraps to 10 */
  n=0; p=(uint8_t*)pixman_image_get_data(d); for(int i=0;i<64*16;i++) n+=p[i]!=0;
  printf("composite_trapezoids at x=65546: %d pixels touched in a 64-wide image (expected 0)\n", n);
}
