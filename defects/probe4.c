#include <stdio.h>
#include <stdlib.h>
#include <limits.h>
#include "pixman.h"
int main(){
  pixman_box32_t b[2] = { { INT_MIN+1, 0, INT_MIN+5, 10 }, { 0, INT_MAX-5, 10, INT_MAX-1 } };
  pixman_region32_t r; pixman_region32_init_rects(&r, b, 2);
  printf("before: n=%d selfcheck=%d\n", pixman_region32_n_rects(&r), pixman_region32_selfcheck(&r));
  pixman_region32_translate(&r, -100, 100);
  pixman_box32_t *e = pixman_region32_extents(&r);
  printf("after: n=%d not_empty=%d extents=%d %d %d %d selfcheck=%d\n", pixman_region32_n_rects(&r), pixman_region32_not_empty(&r), e->x1,e->y1,e->x2,e->y2, pixman_region32_selfcheck(&r));
  pixman_region32_t em; pixman_region32_init(&em);
  printf("equal(empty)=%d\n", pixman_region32_equal(&r,&em));
  /* 16-bit variant */
  pixman_box16_t c[2] = { { -32767, 0, -32763, 10 }, { 0, 32762, 10, 32766 } };
  pixman_region16_t q; pixman_region_init_rects(&q, c, 2);
  pixman_region_translate(&q, -100, 100);
  pixman_box16_t *f = pixman_region_extents(&q);
  pixman_region16_t em16; pixman_region_init(&em16);
  printf("16: n=%d extents=%d %d %d %d selfcheck=%d equal(empty)=%d\n", pixman_region_n_rects(&q), f->x1,f->y1,f->x2,f->y2, pixman_region_selfcheck(&q), pixman_region_equal(&q,&em16));
}
