/* suspect1: which entry points leave a source image un-validated after its
 * first use?  (public API only; own malloc so that the image object can be
 * write-protected; run on the UNMODIFIED tree)
 */
#define _GNU_SOURCE
#include <stdio.h>
#include <stdlib.h>
#include <string.h>
#include <stdint.h>
#include <errno.h>
#include <signal.h>
#include <unistd.h>
#include <pthread.h>
#include <sys/mman.h>
#include "pixman.h"

/* ---- a page-per-allocation malloc ------------------------------------- */

#define PG 4096UL

typedef struct { size_t total; size_t size; void *base; size_t pad; } hdr_t;

static void *
page_alloc (size_t align, size_t n)
{
    size_t off = align < 64 ? 64 : align;
    size_t total = (off + n + PG - 1) & ~(PG - 1);
    char *base, *p;
    hdr_t *h;

    base = mmap (NULL, total, PROT_READ | PROT_WRITE,
		 MAP_PRIVATE | MAP_ANONYMOUS, -1, 0);
    if (base == MAP_FAILED)
    {
	errno = ENOMEM;
	return NULL;
    }
    p = base + off;
    h = (hdr_t *)(p - sizeof (hdr_t));
    h->total = total;
    h->size = n;
    h->base = base;
    return p;
}

void *malloc (size_t n) { return page_alloc (16, n); }
void *calloc (size_t a, size_t b)
{
    if (b && a > (size_t)-1 / b) { errno = ENOMEM; return NULL; }
    return page_alloc (16, a * b);          /* fresh pages are zero */
}
void free (void *p)
{
    hdr_t *h;
    if (!p) return;
    h = (hdr_t *)((char *)p - sizeof (hdr_t));
    munmap (h->base, h->total);
}
void *realloc (void *p, size_t n)
{
    hdr_t *h;
    void *q;
    if (!p) return malloc (n);
    if (!n) { free (p); return NULL; }
    h = (hdr_t *)((char *)p - sizeof (hdr_t));
    if (!(q = malloc (n))) return NULL;
    memcpy (q, p, h->size < n ? h->size : n);
    free (p);
    return q;
}
void *memalign (size_t al, size_t n) { return page_alloc (al, n); }
void *aligned_alloc (size_t al, size_t n) { return page_alloc (al, n); }
int posix_memalign (void **r, size_t al, size_t n)
{
    void *p = page_alloc (al, n);
    if (!p) return ENOMEM;
    *r = p;
    return 0;
}
size_t malloc_usable_size (void *p)
{
    return p ? ((hdr_t *)((char *)p - sizeof (hdr_t)))->size : 0;
}


/* ---- the probes --------------------------------------------------------- */
#include <sys/wait.h>

#define SIZE 32

static char *protected_lo, *protected_hi;

static void
on_fault (int sig, siginfo_t *si, void *ctx)
{
    char *a = si->si_addr;
    (void) sig; (void) ctx;
    _exit (a >= protected_lo && a < protected_hi ? 42 : 43);
}

static pixman_image_t *src, *dest;
static uint32_t dest_bits[SIZE * SIZE];

static void first_use_composite_zero_width (void)
{
    pixman_image_composite32 (PIXMAN_OP_OVER, src, NULL, dest, 0, 0, 0, 0, 0, 0, 0, 0);
}
static void first_use_trapezoids_none (void)
{
    pixman_trapezoid_t t;
    memset (&t, 0, sizeof t);
    pixman_composite_trapezoids (PIXMAN_OP_OVER, src, dest, PIXMAN_a8, 0, 0, 0, 0, 0, &t);
}
static void first_use_triangles_none (void)
{
    pixman_triangle_t t;
    memset (&t, 0, sizeof t);
    pixman_composite_triangles (PIXMAN_OP_OVER, src, dest, PIXMAN_a8, 0, 0, 0, 0, 0, &t);
}
static void first_use_glyphs_huge_mask (void)
{
    pixman_glyph_cache_t *cache = pixman_glyph_cache_create ();
    /* the temporary mask cannot be allocated: 2^20 x 2^20 x 4 bytes */
    pixman_composite_glyphs (PIXMAN_OP_OVER, src, dest, PIXMAN_a8r8g8b8,
			     0, 0, 0, 0, 0, 0, 1 << 20, 1 << 20, cache, 0, NULL);
}
static void first_use_glyphs_empty_mask (void)
{
    pixman_glyph_cache_t *cache = pixman_glyph_cache_create ();
    pixman_composite_glyphs (PIXMAN_OP_OVER, src, dest, PIXMAN_a8,
			     0, 0, 0, 0, 0, 0, 0, 0, cache, 0, NULL);
}
static void first_use_glyphs_no_mask_clipped (void)
{
    pixman_glyph_cache_t *cache = pixman_glyph_cache_create ();
    pixman_region32_t nothing;
    pixman_region32_init (&nothing);
    pixman_image_set_clip_region32 (dest, &nothing);
    pixman_composite_glyphs_no_mask (PIXMAN_OP_OVER, src, dest, 0, 0, 0, 0, cache, 0, NULL);
    pixman_image_set_clip_region32 (dest, NULL);
}

static const struct { const char *name; void (*first_use) (void); } probes[] =
{
    { "pixman_image_composite32, width = height = 0", first_use_composite_zero_width },
    { "pixman_composite_trapezoids, n_traps = 0", first_use_trapezoids_none },
    { "pixman_composite_triangles, n_tris = 0", first_use_triangles_none },
    { "pixman_composite_glyphs, mask too big to allocate", first_use_glyphs_huge_mask },
    { "pixman_composite_glyphs, width = height = 0", first_use_glyphs_empty_mask },
    { "pixman_composite_glyphs_no_mask, destination clipped away", first_use_glyphs_no_mask_clipped },
};

int
main (void)
{
    long page = sysconf (_SC_PAGESIZE);
    unsigned i;

    alarm (60);
    for (i = 0; i < sizeof probes / sizeof probes[0]; ++i)
    {
	pid_t pid;
	int status = 0;

	fflush (stdout);
	if ((pid = fork ()) == 0)
	{
	    pixman_color_t colour = { 0x2020, 0x4040, 0x6060, 0xffff };
	    struct sigaction sa;

	    memset (&sa, 0, sizeof sa);
	    sa.sa_sigaction = on_fault;
	    sa.sa_flags = SA_SIGINFO;
	    sigaction (SIGSEGV, &sa, NULL);

	    src = pixman_image_create_solid_fill (&colour);
	    dest = pixman_image_create_bits (PIXMAN_a8r8g8b8, SIZE, SIZE, dest_bits, SIZE * 4);

	    probes[i].first_use ();

	    protected_lo = (char *)((uintptr_t)src & ~((uintptr_t)page - 1));
	    protected_hi = protected_lo + page;
	    mprotect (protected_lo, page, PROT_READ);

	    /* the second use: what another thread would do with the shared image */
	    pixman_image_composite32 (PIXMAN_OP_OVER, src, NULL, dest, 0, 0, 0, 0, 0, 0, SIZE, SIZE);
	    _exit (dest_bits[0] == 0xff204060 ? 0 : 44);
	}
	waitpid (pid, &status, 0);
	printf ("first use through %-58s: ", probes[i].name);
	if (WIFEXITED (status) && WEXITSTATUS (status) == 0)
	    printf ("image up to date, second use only reads it\n");
	else if (WIFEXITED (status) && WEXITSTATUS (status) == 42)
	    printf ("STILL DIRTY - the second use writes to the shared image\n");
	else
	    printf ("unexpected status 0x%x\n", status);
    }
    return 0;
}
