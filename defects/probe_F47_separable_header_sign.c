/* suspect3: pixman_image_set_filter (SEPARABLE_CONVOLUTION) only checks
 *     n_params == 4 + n_x_phases * width + n_y_phases * height
 * so a negative width can be balanced by a larger height (and the other way
 * round).  {width = -100, height = 100, 0, 0} with n_params == 4 is accepted,
 * and the fetcher then takes its y coefficients from
 *     params + 4 + (1 << x_phase_bits) * width = params - 96,
 * i.e. it reads 96 values in front of the library's own copy of the block.
 * Run under valgrind to see the invalid reads.
 */
#include <stdio.h>
#include <stdlib.h>
#include <string.h>
#include "pixman.h"

int
main (void)
{
    static uint32_t sbits[8 * 8], dbits[8 * 8];
    pixman_fixed_t params[4];
    pixman_image_t *src, *dst;
    pixman_transform_t t;
    pixman_bool_t ok;

    memset (sbits, 0xff, sizeof sbits);
    src = pixman_image_create_bits (PIXMAN_a8r8g8b8, 8, 8, sbits, 32);
    dst = pixman_image_create_bits (PIXMAN_a8r8g8b8, 8, 8, dbits, 32);

    params[0] = pixman_int_to_fixed (-100);
    params[1] = pixman_int_to_fixed (100);
    params[2] = 0;
    params[3] = 0;
    ok = pixman_image_set_filter (src, PIXMAN_FILTER_SEPARABLE_CONVOLUTION,
				  params, 4);
    printf ("set_filter (width = -100, height = 100, n_params = 4) returned %d\n", ok);

    pixman_transform_init_scale (&t, pixman_fixed_1 + 7, pixman_fixed_1 + 3);
    pixman_image_set_transform (src, &t);
    pixman_image_composite32 (PIXMAN_OP_SRC, src, NULL, dst, 0, 0, 0, 0, 0, 0, 8, 8);
    printf ("composite done, dest[0] = %08x\n", dbits[0]);
    return 0;
}
