/* suspect1: fast_composite_rotate_90/270 add 0.5 to the translation of the
 * transform in 32-bit 16.16 arithmetic.  A translation of 32767.5 or more is a
 * representable pixman_fixed_t and analyze_extent() accepts the request (all
 * sample positions lie inside the source), but
 *     matrix[0][2] + pixman_fixed_1 / 2 - pixman_fixed_e
 * wraps to a negative value and the source pointer ends up ~65536 pixels
 * before the row.
 *
 * Runs the composite in a child so that a crash is reported.
 */
#include <stdio.h>
#include <stdlib.h>
#include <string.h>
#include <unistd.h>
#include <signal.h>
#include <sys/wait.h>
#include <sys/mman.h>
#include "pixman.h"

#define SW 16
#define SH 16

static int
child (pixman_fixed_t frac)
{
    /* source 16x16, every pixel holds its own coordinates */
    size_t pg = 4096;
    size_t map_len = 64 * pg;
    uint8_t *map = mmap (NULL, map_len, PROT_READ | PROT_WRITE,
			 MAP_PRIVATE | MAP_ANONYMOUS, -1, 0);
    uint32_t *sbits = (uint32_t *)(map + 32 * pg);
    uint32_t dbits[4 * 4];
    pixman_image_t *src, *dst;
    pixman_transform_t t;
    int x, y, bad = 0;
    int src_y = 32760;

    memset (map, 0x5a, map_len);	/* foreign memory */
    for (y = 0; y < SH; ++y)
	for (x = 0; x < SW; ++x)
	    sbits[y * SW + x] = 0xff000000 | (y << 8) | x;

    src = pixman_image_create_bits (PIXMAN_a8r8g8b8, SW, SH, sbits, SW * 4);
    dst = pixman_image_create_bits (PIXMAN_a8r8g8b8, 4, 4, dbits, 4 * 4);
    memset (dbits, 0, sizeof dbits);

    /* 90 degree rotation: x' = -y + tx, y' = x + ty */
    memset (&t, 0, sizeof t);
    t.matrix[0][1] = -pixman_fixed_1;
    t.matrix[1][0] = pixman_fixed_1;
    t.matrix[2][2] = pixman_fixed_1;
    t.matrix[0][2] = pixman_int_to_fixed (32767) + frac;
    t.matrix[1][2] = 0;
    pixman_image_set_transform (src, &t);
    pixman_image_set_filter (src, PIXMAN_FILTER_NEAREST, NULL, 0);

    /* dest pixel (i, j) samples source-space point (i + .5, src_y + j + .5):
     *   x' = 32767.f - 32760.5 - j = 6.5 + f - j  -> column 7 - j for f > .5, 6 - j for f < .5
     *   y' = i + .5                             -> row i
     */
    pixman_image_composite32 (PIXMAN_OP_SRC, src, NULL, dst,
			      0, src_y, 0, 0, 0, 0, 4, 4);

    for (y = 0; y < 4; ++y)
	for (x = 0; x < 4; ++x)
	{
	    int col = (frac > 0x8000 ? 7 : 6) - y;
	    uint32_t expect = 0xff000000 | (x << 8) | col;
	    if (dbits[y * 4 + x] != expect)
	    {
		if (!bad)
		    printf ("dest(%d,%d) = %08x, expected %08x (source pixel "
			    "column %d row %d)\n", x, y, dbits[y * 4 + x], expect,
			    col, x);
		bad++;
	    }
	}
    printf ("%d of 16 destination pixels wrong\n", bad);
    return bad ? 2 : 0;
}

static void
run (pixman_fixed_t frac)
{
    pid_t pid;
    int status;

    printf ("translation 32767 + 0x%04x/65536:\n", frac);
    fflush (stdout);
    pid = fork ();
    if (pid == 0)
    {
	int r;
	alarm (20);
	r = child (frac);
	fflush (stdout);
	_exit (r);
    }
    waitpid (pid, &status, 0);
    if (WIFSIGNALED (status))
	printf ("  child killed by signal %d (%s)\n", WTERMSIG (status),
		strsignal (WTERMSIG (status)));
    else
	printf ("  child exit status %d\n", WEXITSTATUS (status));
}

int
main (void)
{
    run (0x6000);	/* 32767.375: + 0.5 still fits */
    run (0xc000);	/* 32767.75:  + 0.5 wraps */
    return 0;
}
