/* F48: analyze_extent granted SAMPLES_COVER_CLIP_NEAREST from the four transformed corners (pixman_transform_point: rounding
 * division) also under a projective transform, where the general fetcher divides per sample with truncation.  With the matrix
 * below the corner of destination pixel (0,0) lies at x = 0.97/65536: it is rounded to 1/65536 and passes the test
 * (x - e >= 0), the fetcher computes 0 and samples pixel floor (0 - e) = -1, i.e. outside.  The x8r8g8b8 source with
 * REPEAT_NONE was promoted to opaque, OVER became SRC and wrote the transparent sample; the same pixels as a8r8g8b8 with alpha
 * 255 leave the destination alone there.   (found by a seeding sub-agent's random search; matrix of its trial 508)
 * exit 0: both presentations agree; exit 1: they differ */
#include <stdio.h>
#include <stdint.h>
#include "pixman.h"
#define SW 48
#define SH 48
#define DW 24
#define DH 24
int main (void)
{
    static uint32_t sx[SW * SH], sa[SW * SH], d1[DW * DH], d2[DW * DH];
    pixman_image_t *ix, *ia, *i1, *i2;
    pixman_transform_t t = {{{0x13212, 0x6fc, (int32_t)0xffff637a}, {0x11d6, 0xb1fc, (int32_t)0xffff9e23}, {(int32_t)0xfffffe96, 0x137, 0x107b9}}};
    int i, bad = 0;
    for (i = 0; i < SW * SH; i++) { uint32_t c = (i * 2654435761u) & 0xffffff; sx[i] = c; sa[i] = c | 0xff000000; }
    for (i = 0; i < DW * DH; i++) d1[i] = d2[i] = 0xff336699;
    ix = pixman_image_create_bits (PIXMAN_x8r8g8b8, SW, SH, sx, SW * 4);
    ia = pixman_image_create_bits (PIXMAN_a8r8g8b8, SW, SH, sa, SW * 4);
    i1 = pixman_image_create_bits (PIXMAN_a8r8g8b8, DW, DH, d1, DW * 4);
    i2 = pixman_image_create_bits (PIXMAN_a8r8g8b8, DW, DH, d2, DW * 4);
    pixman_image_set_transform (ix, &t); pixman_image_set_transform (ia, &t);
    pixman_image_set_filter (ix, PIXMAN_FILTER_NEAREST, NULL, 0); pixman_image_set_filter (ia, PIXMAN_FILTER_NEAREST, NULL, 0);
    pixman_image_composite32 (PIXMAN_OP_OVER, ix, NULL, i1, 0, 0, 0, 0, 0, 0, 14, 23);
    pixman_image_composite32 (PIXMAN_OP_OVER, ia, NULL, i2, 0, 0, 0, 0, 0, 0, 14, 23);
    for (i = 0; i < DW * DH; i++)
	if (d1[i] != d2[i])
	{
	    if (!bad) printf ("pixel (%d,%d): x8r8g8b8 source -> %08x, a8r8g8b8 source with alpha 255 -> %08x\n", i % DW, i / DW, d1[i], d2[i]);
	    bad++;
	}
    printf ("%d pixels differ\n", bad);
    return bad ? 1 : 0;
}
