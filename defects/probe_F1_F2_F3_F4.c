#include <stdio.h>
#include <stdlib.h>
#include <string.h>
#include <signal.h>
#include <unistd.h>
#include "pixman.h"
static void alrm(int s){ printf("F3: lookup did not terminate within 3s (HANG)\n"); fflush(stdout); _exit(0); }
int main(int argc,char**argv){
  int which = atoi(argv[1]);
  if (which==1){ /* F1 fill_boxes out of bounds */
    uint32_t *buf = calloc(64*64+64*200,4); uint32_t *img = buf + 64*100; /* guard rows around */
    pixman_image_t *d = pixman_image_create_bits(PIXMAN_a8r8g8b8, 64, 64, img, 64*4);
    pixman_color_t c = {0xffff,0xffff,0xffff,0xffff};
    pixman_box32_t b = { 0, -10, 64, 74 };
    pixman_image_fill_boxes(PIXMAN_OP_SRC, d, &c, 1, &b);
    int above=0, below=0; for(int i=0;i<64*100;i++){ if(buf[i]) above++; if(buf[64*100+64*64+i]) below++; }
    printf("F1: words written above image=%d below image=%d (expected 0,0)\n", above, below);
  }
  if (which==2){ /* F2 alpha_count stale */
    pixman_image_t *A = pixman_image_create_bits(PIXMAN_a8, 4,4,NULL,0);
    pixman_image_t *B = pixman_image_create_bits(PIXMAN_a8r8g8b8, 4,4,NULL,0);
    pixman_image_t *C = pixman_image_create_bits(PIXMAN_a8, 4,4,NULL,0);
    pixman_image_set_alpha_map(B, A, 0, 0);
    pixman_image_unref(B);
    /* A no longer used as alpha map. Give A its own alpha map C (all zero alpha), render A as source */
    uint32_t *ad = pixman_image_get_data(A); memset(ad, 0xff, 4*4);
    pixman_image_set_alpha_map(A, C, 0, 0);
    pixman_image_t *D = pixman_image_create_bits(PIXMAN_a8, 4,4,NULL,0);
    pixman_image_composite32(PIXMAN_OP_SRC, A, NULL, D, 0,0,0,0,0,0,4,4);
    printf("F2: dest[0]=0x%02x (fresh image with zero alpha map would give 0x00)\n", *(uint8_t*)pixman_image_get_data(D));
  }
  if (which==3){ /* F3 glyph cache full */
    pixman_glyph_cache_t *gc = pixman_glyph_cache_create();
    pixman_image_t *g = pixman_image_create_bits(PIXMAN_a8,1,1,NULL,0);
    pixman_glyph_cache_freeze(gc);
    long n=0; for(long i=1;i<=40000;i++){ if(pixman_glyph_cache_insert(gc,(void*)1,(void*)i,0,0,g)) n++; }
    printf("F3: inserted %ld\n", n); fflush(stdout);
    signal(SIGALRM, alrm); alarm(3);
    const void *r = pixman_glyph_cache_lookup(gc,(void*)2,(void*)7);
    printf("F3: lookup returned %p\n", r);
  }
  if (which==4){ /* F4 assert in transform_point */
    pixman_transform_t t; memset(&t,0,sizeof t);
    t.matrix[0][0]=65536; t.matrix[1][1]=65536; t.matrix[2][0]=(pixman_fixed_t)0x80000000; 
    pixman_vector_t v = {{ 2*65536, 0, 0 }};
    pixman_bool_t ok = pixman_transform_point(&t,&v);
    printf("F4: returned %d (no abort)\n", ok);
  }
  if (which==6){ /* F6 bounds */
    pixman_transform_t t; pixman_transform_init_translate(&t, 0x8000, 0);
    pixman_box16_t b = {0,0,32767,10};
    pixman_bool_t ok = pixman_transform_bounds(&t,&b);
    printf("F6: ok=%d box=%d %d %d %d\n", ok, b.x1,b.y1,b.x2,b.y2);
  }
  return 0; }
