/* F36: a dithered destination is honoured only by the general path (it switches to the wide pipeline and dithers on write-back); every
 * whole-operation fast path and the pixman_fill shortcut of fill_boxes ignore bits.dither.  The same request therefore gives different
 * pictures with and without PIXMAN_DISABLE=wholeops. */
#include <stdio.h>
#include <stdlib.h>
#include <string.h>
#include <unistd.h>
#include <pixman.h>
static unsigned run(int what){
    static uint32_t s[32*8]; static uint16_t d[32*8];
    for(int i=0;i<32*8;i++) s[i]=0xff000000|(0x47*0x010101); memset(d,0,sizeof d);
    pixman_image_t *src=pixman_image_create_bits(PIXMAN_a8r8g8b8,32,8,s,128);
    pixman_image_t *dst=pixman_image_create_bits(PIXMAN_r5g6b5,32,8,(uint32_t*)d,64);
    pixman_image_set_dither(dst,PIXMAN_DITHER_ORDERED_BAYER_8);
    if(what==0) pixman_image_composite32(PIXMAN_OP_SRC,src,NULL,dst,0,0,0,0,0,0,32,8);
    else if(what==1){ pixman_color_t c={0x4747,0x4747,0x4747,0xffff}; pixman_rectangle16_t r={0,0,32,8}; pixman_image_fill_rectangles(PIXMAN_OP_SRC,dst,&c,1,&r); }
    else { pixman_color_t c={0x4747,0x4747,0x4747,0xffff}; pixman_image_t *so=pixman_image_create_solid_fill(&c); pixman_image_composite32(PIXMAN_OP_SRC,so,NULL,dst,0,0,0,0,0,0,32,8); }
    int distinct=0; for(int i=1;i<32*8;i++) if(d[i]!=d[0]) distinct++;
    unsigned h=0; for(int i=0;i<32*8;i++) h=h*31+d[i];
    printf("%s: %d pixels differ from the first one (%s), hash %08x\n",what==1?"fill_rectangles":what==2?"composite SRC solid->0565":"composite SRC 8888->0565",distinct,distinct?"dithered":"not dithered",h);
    return h;
}
int main(int argc,char**argv){
    if(argc>1){ printf("%08x %08x\n",run(0),run(2)); return 0; }
    unsigned a0=run(0), a1=run(1);
    setenv("PIXMAN_DISABLE","wholeops",1);
    char cmd[512]; snprintf(cmd,sizeof cmd,"%s child | tail -1",argv[0]);
    FILE *p=popen(cmd,"r"); unsigned b0=0,b1=0; if(!p||fscanf(p,"%x %x",&b0,&b1)!=2){puts("FAIL: child");return 2;} pclose(p);
    printf("default: composite %08x, fill_rectangles %08x   PIXMAN_DISABLE=wholeops (general path): composite %08x, composite of a solid %08x\n",a0,a1,b0,b1);
    int bad=(a0!=b0)||(a1!=b1); puts(bad?"FAIL":"PASS"); return bad;
}
