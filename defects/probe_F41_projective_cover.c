/* F41: analyze_extent bounds the samples of a transformed source by the hull of the four transformed corners of the request.  Under a
 * projective transform whose homogeneous coordinate w changes sign inside the request the interior maps far outside that hull; the
 * source is nevertheless flagged SAMPLES_COVER_CLIP, an alpha-less source becomes "opaque" and OVER is reduced to SRC: the transparent
 * outside samples overwrite the destination.  The same picture presented as a8r8g8b8 with alpha 255 leaves the destination alone. */
#include <stdio.h>
#include <string.h>
#include <pixman.h>
static void run(pixman_format_code_t fmt, uint32_t *d){
    uint32_t s[8*8]; for(int i=0;i<64;i++) s[i]=0xffff0000;
    for(int i=0;i<32;i++) d[i]=0xff0000ff;
    pixman_image_t *src=pixman_image_create_bits(fmt,8,8,s,32);
    pixman_image_t *dst=pixman_image_create_bits(PIXMAN_a8r8g8b8,32,1,d,128);
    pixman_transform_t t={{{pixman_int_to_fixed(1),0,pixman_int_to_fixed(-8)},{pixman_double_to_fixed(2.5),0,pixman_int_to_fixed(-40)},{pixman_int_to_fixed(1),0,pixman_int_to_fixed(-16)}}};
    pixman_image_set_transform(src,&t); pixman_image_set_filter(src,PIXMAN_FILTER_NEAREST,NULL,0);
    pixman_image_composite32(PIXMAN_OP_OVER,src,NULL,dst,0,0,0,0,0,0,32,1);
    pixman_image_unref(src); pixman_image_unref(dst);
}
int main(void){
    uint32_t a[32],b[32]; run(PIXMAN_x8r8g8b8,a); run(PIXMAN_a8r8g8b8,b);
    int bad=0; for(int i=0;i<32;i++) if(a[i]!=b[i]){ if(!bad) printf("x=%d: x8r8g8b8 source gives %08x, the same picture as a8r8g8b8/255 gives %08x\n",i,a[i],b[i]); bad++; }
    printf("%d of 32 pixels differ\n",bad); puts(bad?"FAIL":"PASS"); return bad?1:0;
}
