/* F31: pixman_transform_scale computes the reverse scale 1/sx as (pixman_fixed_t)(2^32 / sx) without a range check: for |sx| <= 2/65536
 * the quotient does not fit 16.16 and TRUE is returned with a wrapped entry (sx = 1/65536 -> reverse scale 0). */
#include <stdio.h>
#include <pixman.h>
int main(void){
    int bad=0;
    pixman_fixed_t sxs[]={1,2,-1,3,65536};
    for(unsigned i=0;i<sizeof sxs/sizeof *sxs;i++){
        struct pixman_transform rev; pixman_transform_init_identity(&rev);
        pixman_bool_t ok=pixman_transform_scale(NULL,&rev,sxs[i],pixman_fixed_1);
        long long exact=(1LL<<32)/sxs[i];
        int fits = exact<=0x7fffffffLL && exact>=-0x80000000LL;
        printf("sx=%d raw: returned %d, reverse m00=%d, exact 2^32/sx=%lld (%s)\n",sxs[i],ok,rev.matrix[0][0],exact,fits?"fits":"does not fit");
        if(!fits && ok) bad++;
        if(fits && (!ok || rev.matrix[0][0]!=(pixman_fixed_t)exact)) bad++;
    }
    puts(bad?"FAIL":"PASS"); return bad?1:0;
}
