/* F40 (known finding): pixman_composite_trapezoids with an operator for which a zero
 * source matters (SRC here) and a non-zero destination offset.  By the
 * documented definition the result equals compositing a mask that covers the
 * entire destination.  Observed: the temporary mask is dst-sized but placed at
 * (x_dst, y_dst), so the strip left of x_dst / above y_dst is neither cleared
 * nor drawn.
 */
#include <stdio.h>
#include <stdlib.h>
#include <string.h>
#include "pixman.h"

#define W 20
#define H 4

int main (void)
{
    uint32_t got[W * H], want[W * H], mbits[W * H];
    pixman_color_t red = { 0xffff, 0, 0, 0xffff };
    pixman_image_t *src = pixman_image_create_solid_fill (&red);
    pixman_image_t *d1, *d2, *mask;
    pixman_trapezoid_t t;
    int x_dst = 10, y_dst = 0, x, y, diff = 0;

    memset (got, 0xff, sizeof got);
    memset (want, 0xff, sizeof want);
    memset (mbits, 0, sizeof mbits);
    d1 = pixman_image_create_bits (PIXMAN_a8r8g8b8, W, H, got, W * 4);
    d2 = pixman_image_create_bits (PIXMAN_a8r8g8b8, W, H, want, W * 4);
    mask = pixman_image_create_bits (PIXMAN_a8, W, H, mbits, W * 4);

    /* rectangle x in [-5,5), y in [0,4) in trapezoid space */
    t.top = 0; t.bottom = pixman_int_to_fixed (4);
    t.left.p1.x = t.left.p2.x = pixman_int_to_fixed (-5);
    t.right.p1.x = t.right.p2.x = pixman_int_to_fixed (5);
    t.left.p1.y = t.right.p1.y = 0;
    t.left.p2.y = t.right.p2.y = pixman_int_to_fixed (4);

    pixman_composite_trapezoids (PIXMAN_OP_SRC, src, d1, PIXMAN_a8,
				 0, 0, x_dst, y_dst, 1, &t);

    /* reference: mask covering the whole destination */
    pixman_rasterize_trapezoid (mask, &t, x_dst, y_dst);
    pixman_image_composite32 (PIXMAN_OP_SRC, src, mask, d2,
			      0, 0, 0, 0, 0, 0, W, H);

    for (y = 0; y < 1; y++)
    {
	printf ("row %d got : ", y);
	for (x = 0; x < W; x++) printf ("%c", got[y * W + x] == 0xffffffff ? 'W' : got[y * W + x] == 0xffff0000 ? 'R' : got[y * W + x] == 0 ? '.' : '?');
	printf ("\nrow %d want: ", y);
	for (x = 0; x < W; x++) printf ("%c", want[y * W + x] == 0xffffffff ? 'W' : want[y * W + x] == 0xffff0000 ? 'R' : want[y * W + x] == 0 ? '.' : '?');
	printf ("\n");
    }
    for (x = 0; x < W * H; x++) diff += got[x] != want[x];
    printf ("%d of %d pixels differ (W = untouched white, R = red, . = cleared)\n", diff, W * H);
    puts (diff ? "FAIL" : "PASS");
    return diff ? 1 : 0;
}
