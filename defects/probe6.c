#include <stdio.h>
#include <stdlib.h>
#include <string.h>
#include "pixman.h"
/* role: 0 = image used as source, 1 = image used as mask. The image X has NO clip of its own;
   its alpha map AM has a client clip with source clipping enabled covering only x<2. */
static void run(int role){
  pixman_image_t *X  = pixman_image_create_bits(PIXMAN_a8r8g8b8, 4,1,NULL,0);
  pixman_image_t *AM = pixman_image_create_bits(PIXMAN_a8, 4,1,NULL,0);
  pixman_image_t *D  = pixman_image_create_bits(PIXMAN_a8r8g8b8, 4,1,NULL,0);
  pixman_image_t *W; pixman_color_t white={0xffff,0xffff,0xffff,0xffff}; W=pixman_image_create_solid_fill(&white);
  memset(pixman_image_get_data(X),0xff,16); memset(pixman_image_get_data(AM),0xff,4);
  pixman_region32_t clip; pixman_region32_init_rect(&clip,0,0,2,1);
  pixman_image_set_clip_region32(AM,&clip); pixman_image_set_source_clipping(AM,1); pixman_image_set_has_client_clip(AM,1);
  pixman_image_set_alpha_map(X,AM,0,0);
  if(role==0) pixman_image_composite32(PIXMAN_OP_SRC, X, NULL, D, 0,0,0,0,0,0,4,1);
  else        pixman_image_composite32(PIXMAN_OP_SRC, W, X, D, 0,0,0,0,0,0,4,1);
  uint32_t *d=pixman_image_get_data(D); printf("role=%s dest: %08x %08x %08x %08x\n", role?"mask":"src", d[0],d[1],d[2],d[3]);
  pixman_region16_t r16; pixman_region_init(&r16);
  pixman_bool_t ok = role==0? pixman_compute_composite_region(&r16,X,NULL,D,0,0,0,0,0,0,4,1) : pixman_compute_composite_region(&r16,W,X,D,0,0,0,0,0,0,4,1);
  pixman_box16_t *e=pixman_region_extents(&r16); printf("   region ok=%d extents %d %d %d %d\n",ok,e->x1,e->y1,e->x2,e->y2);
}
int main(){ run(0); run(1); }
