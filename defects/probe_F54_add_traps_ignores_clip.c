/* F54: pixman_add_traps, pixman_add_trapezoids and pixman_rasterize_trapezoid rasterise straight into the image's bits and never
 * consult its clip region; pixman_composite_trapezoids (which goes through pixman_image_composite32, or takes its direct route only
 * when the destination has no clip) honours it.  16x16 a8 destination with a 4x4 clip, one shape covering everything.
 * exit 0: nothing outside the clip changed; exit 1: something did */
#include <stdio.h>
#include <string.h>
#include "pixman.h"
#define W 16
#define H 16
static uint8_t bits[W * H];
static pixman_image_t *img;
static int outside (void)
{
    int x, y, n = 0;
    for (y = 0; y < H; y++) for (x = 0; x < W; x++) if ((x >= 4 || y >= 4) && bits[y * W + x]) n++;
    return n;
}
static void reset (void)
{
    pixman_region32_t clip;
    memset (bits, 0, sizeof bits);
    if (img) pixman_image_unref (img);
    img = pixman_image_create_bits (PIXMAN_a8, W, H, (uint32_t *)bits, W);
    pixman_region32_init_rect (&clip, 0, 0, 4, 4);
    pixman_image_set_clip_region32 (img, &clip);
    pixman_region32_fini (&clip);
}
int main (void)
{
    pixman_trapezoid_t t = { 0, pixman_int_to_fixed (H), { { 0, 0 }, { 0, pixman_int_to_fixed (H) } }, { { pixman_int_to_fixed (W), 0 }, { pixman_int_to_fixed (W), pixman_int_to_fixed (H) } } };
    pixman_trap_t tr = { { 0, pixman_int_to_fixed (W), 0 }, { 0, pixman_int_to_fixed (W), pixman_int_to_fixed (H) } };
    pixman_color_t white = { 0xffff, 0xffff, 0xffff, 0xffff };
    pixman_image_t *src = pixman_image_create_solid_fill (&white);
    int bad = 0, n;
    reset (); pixman_composite_trapezoids (PIXMAN_OP_OVER, src, img, PIXMAN_a8, 0, 0, 0, 0, 1, &t);
    n = outside (); printf ("pixman_composite_trapezoids: %d pixels changed outside the 4x4 clip\n", n); bad += n;
    reset (); pixman_add_trapezoids (img, 0, 0, 1, &t);
    n = outside (); printf ("pixman_add_trapezoids:       %d pixels changed outside the 4x4 clip\n", n); bad += n;
    reset (); pixman_add_traps (img, 0, 0, 1, &tr);
    n = outside (); printf ("pixman_add_traps:            %d pixels changed outside the 4x4 clip\n", n); bad += n;
    reset (); pixman_rasterize_trapezoid (img, &t, 0, 0);
    n = outside (); printf ("pixman_rasterize_trapezoid:  %d pixels changed outside the 4x4 clip\n", n); bad += n;
    return bad ? 1 : 0;
}
