/* F30: pixman_image_set_filter accepts a PIXMAN_FILTER_CONVOLUTION parameter block shorter than the width * height + 2 values its
 * header announces; the library copies the n_params values it was given into its own allocation and the convolution fetcher then
 * reads width * height coefficients from it - past the end of the library's own allocation (valgrind: invalid read).
 * Also: SEPARABLE_CONVOLUTION with fewer than 4 values reads the header past the caller's array. */
#include <stdio.h>
#include <stdlib.h>
#include <string.h>
#include <pixman.h>
int main(void){
    uint32_t s[16*16], d[16*16]; memset(s,0x80,sizeof s); memset(d,0,sizeof d);
    pixman_image_t *src=pixman_image_create_bits(PIXMAN_a8r8g8b8,16,16,s,64);
    pixman_image_t *dst=pixman_image_create_bits(PIXMAN_a8r8g8b8,16,16,d,64);
    pixman_fixed_t *hdr=malloc(2*sizeof *hdr); hdr[0]=pixman_int_to_fixed(63); hdr[1]=pixman_int_to_fixed(63);   /* announces 3969 coefficients, has none */
    pixman_bool_t ok=pixman_image_set_filter(src,PIXMAN_FILTER_CONVOLUTION,hdr,2);
    printf("set_filter (CONVOLUTION, 63x63 header, n_params = 2) returned %d\n",ok);
    if(ok){ pixman_image_composite32(PIXMAN_OP_SRC,src,NULL,dst,0,0,0,0,0,0,16,16); }
    puts(ok?"FAIL: the short block was accepted (the fetcher reads 3969 values from an 8 byte allocation)":"PASS");
    return ok?1:0;
}
