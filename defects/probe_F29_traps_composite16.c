/* F29: pixman_composite_trapezoids composites its temporary mask with the 16-bit pixman_image_composite: positions and sizes beyond
 * 16 bits wrap.  A trapezoid at x = 35000..35010 of a 40000 pixel wide destination is drawn nowhere (x wraps to -30536). */
#include <stdio.h>
#include <stdlib.h>
#include <string.h>
#include <pixman.h>
int main(void){
    int W=40000,H=4;
    uint32_t *d=calloc(W*H,4);
    pixman_image_t *dst=pixman_image_create_bits(PIXMAN_a8r8g8b8,W,H,d,W*4);
    pixman_color_t c={0xffff,0xffff,0xffff,0xffff};
    pixman_image_t *s=pixman_image_create_solid_fill(&c);
    pixman_trapezoid_t t; t.top=0; t.bottom=pixman_int_to_fixed(4);
    /* coordinates relative to x_dst = 30000 so that they fit 16.16 */
    t.left.p1.x=pixman_int_to_fixed(5000); t.left.p1.y=t.top; t.left.p2.x=pixman_int_to_fixed(5000); t.left.p2.y=t.bottom;
    t.right.p1.x=pixman_int_to_fixed(5010); t.right.p1.y=t.top; t.right.p2.x=pixman_int_to_fixed(5010); t.right.p2.y=t.bottom;
    pixman_composite_trapezoids(PIXMAN_OP_OVER,s,dst,PIXMAN_a8,0,0,30000,0,1,&t);
    int in=0,out=0;
    for(int y=0;y<H;y++)for(int x=0;x<W;x++){ if(d[y*W+x]){ if(x>=35000&&x<35010) in++; else out++; } }
    printf("pixels set inside the trapezoid: %d of 40, outside: %d\n",in,out);
    int bad=(in!=40||out!=0); puts(bad?"FAIL":"PASS"); return bad;
}
