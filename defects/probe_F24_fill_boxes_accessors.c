#include <stdio.h>
#include <string.h>
#include "pixman.h"
/* F24: a destination with accessors is written only through its write_func, also by pixman_image_fill_rectangles */
static int writes, reads;
static uint32_t rd (const void *p, int size) { reads++; return size == 4 ? *(const uint32_t *) p : size == 2 ? *(const uint16_t *) p : *(const uint8_t *) p; }
static void wr (void *p, uint32_t v, int size) { writes++; if (size == 4) *(uint32_t *) p = v; else if (size == 2) *(uint16_t *) p = v; else *(uint8_t *) p = v; }
int main(void)
{
    uint32_t bits[8 * 8]; pixman_color_t c = { 0x1234, 0x5678, 0x9abc, 0xffff }; pixman_rectangle16_t r = { 1, 1, 4, 4 };
    pixman_image_t *d;
    memset (bits, 0, sizeof bits);
    d = pixman_image_create_bits (PIXMAN_a8r8g8b8, 8, 8, bits, 32);
    pixman_image_set_accessors (d, rd, wr);
    pixman_image_fill_rectangles (PIXMAN_OP_SRC, d, &c, 1, &r);
    printf ("write_func called %d times, pixel (1,1) = %08x\n", writes, bits[9]);
    if (writes == 0 && bits[9] != 0) { printf ("FAIL: the image memory was written behind the accessors\n"); return 1; }
    printf ("PASS\n"); return 0;
}
