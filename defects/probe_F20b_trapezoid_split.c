#include <stdio.h>
#include <stdlib.h>
#include <string.h>
#include <pixman.h>
#define W 64
#define H 64
static void rast (pixman_trapezoid_t *t, int n, uint8_t *buf)
{
    pixman_image_t *img = pixman_image_create_bits (PIXMAN_a8, W, H, (uint32_t *) buf, W);
    int i;
    for (i = 0; i < n; i++) pixman_rasterize_trapezoid (img, &t[i], 0, 0);
    pixman_image_unref (img);
}
int main (void)
{
    int iter, bad = 0;
    srand (7);
    for (iter = 0; iter < 300000 && bad < 3; iter++)
    {
	static uint8_t a[W * H], b[W * H];
	pixman_trapezoid_t t, p[2];
	pixman_fixed_t cut;
	t.top = rand () % (20 << 16); t.bottom = t.top + (rand () % (40 << 16)) + 65536;
	t.left.p1.x = rand () % (30 << 16); t.left.p1.y = t.top - rand () % (5 << 16);
	t.left.p2.x = rand () % (30 << 16); t.left.p2.y = t.bottom + rand () % (5 << 16);
	t.right.p1.x = (32 << 16) + rand () % (30 << 16); t.right.p1.y = t.top - rand () % (5 << 16);
	t.right.p2.x = (32 << 16) + rand () % (30 << 16); t.right.p2.y = t.bottom + rand () % (5 << 16);
	cut = t.top + rand () % (t.bottom - t.top);
	p[0] = t; p[0].bottom = cut; p[1] = t; p[1].top = cut;
	memset (a, 0, sizeof a); memset (b, 0, sizeof b);
	rast (&t, 1, a); rast (p, 2, b);
	if (memcmp (a, b, sizeof a))
	{
	    int i; for (i = 0; i < W * H; i++) if (a[i] != b[i]) { printf ("iter %d pixel (%d,%d): whole %d, two pieces %d\n", iter, i % W, i / W, a[i], b[i]); break; }
	    bad++;
	}
    }
    printf (bad ? "FAIL\n" : "PASS (no difference found)\n");
    return bad != 0;
}
