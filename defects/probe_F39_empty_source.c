/* F39: a bits image of width 0 (or height 0) is accepted by pixman_image_create_bits; used as a repeating source it makes the fetchers
 * divide by zero (REFLECT / NORMAL: MOD (c, 0)), loop for ever (NORMAL: while (c >= size) c -= size) or read pixel 0 of an image that
 * has no pixels (PAD).  Each case is run in a child with a time limit. */
#include <stdio.h>
#include <stdlib.h>
#include <string.h>
#include <unistd.h>
#include <signal.h>
#include <sys/wait.h>
#include <sys/mman.h>
#include <pixman.h>
static int one(int w,int h,pixman_repeat_t rep,int scale){
    pid_t p=fork();
    if(!p){
        alarm(5);
        /* the source's storage: an inaccessible page - an image without pixels has no byte that may be read */
        uint32_t *bits=mmap(NULL,4096,PROT_NONE,MAP_PRIVATE|MAP_ANONYMOUS,-1,0);
        uint32_t d[8*8]; memset(d,0,sizeof d);
        pixman_image_t *src=pixman_image_create_bits(PIXMAN_a8r8g8b8,w,h,bits,4*(w?w:1));
        pixman_image_t *dst=pixman_image_create_bits(PIXMAN_a8r8g8b8,8,8,d,32);
        if(!src||!dst) _exit(0);
        pixman_image_set_repeat(src,rep);
        if(scale){ pixman_transform_t t; pixman_transform_init_scale(&t,pixman_double_to_fixed(0.5),pixman_double_to_fixed(0.5)); pixman_image_set_transform(src,&t); }
        pixman_image_composite32(PIXMAN_OP_SRC,src,NULL,dst,0,0,0,0,0,0,8,8);
        _exit(0);
    }
    int st; waitpid(p,&st,0);
    if(WIFSIGNALED(st)) return WTERMSIG(st);
    return 0;
}
int main(void){
    const char *rn[]={"NONE","NORMAL","PAD","REFLECT"}; int bad=0;
    for(int dim=0;dim<2;dim++) for(int r=0;r<4;r++) for(int sc=0;sc<2;sc++){
        int sig=one(dim?4:0,dim?0:4,(pixman_repeat_t)r,sc);
        if(sig){ printf("%dx%d source, repeat %s%s: killed by signal %d (%s)\n",dim?4:0,dim?0:4,rn[r],sc?", scaled":"",sig,sig==SIGFPE?"division by zero":sig==SIGALRM?"endless loop":sig==SIGSEGV?"read of a pixel that does not exist":"?"); bad++; }
    }
    puts(bad?"FAIL":"PASS"); return bad?1:0;
}
