/* F34: the a1 edge rasteriser adds the rounding offset X_FRAC_FIRST(1) - pixman_fixed_e to the right edge before clipping it to the image
 * width: for a right edge at x >= 32767.5 the sum overflows 16.16, becomes negative and the whole span is dropped, although the part of
 * the span inside the image is covered.  a8 clips first and is right. */
#include <stdio.h>
#include <string.h>
#include <pixman.h>
static int count(pixman_format_code_t fmt){
    uint32_t bits[64*8]; memset(bits,0,sizeof bits);
    pixman_image_t *img=pixman_image_create_bits(fmt,64,8,bits,fmt==PIXMAN_a1?8:64);
    pixman_trapezoid_t t; t.top=0; t.bottom=pixman_int_to_fixed(8);
    pixman_fixed_t L=pixman_int_to_fixed(10), Rr=0x7fffc000; /* 32767.75 */
    t.left.p1.x=L; t.left.p1.y=t.top; t.left.p2.x=L; t.left.p2.y=t.bottom;
    t.right.p1.x=Rr; t.right.p1.y=t.top; t.right.p2.x=Rr; t.right.p2.y=t.bottom;
    pixman_rasterize_trapezoid(img,&t,0,0);
    int n=0; uint8_t *p=(uint8_t*)bits;
    for(int y=0;y<8;y++)for(int x=0;x<64;x++){ if(fmt==PIXMAN_a1){ if(bits[y*2+x/32]>>(x%32)&1) n++; } else if(p[y*64+x]) n++; }
    pixman_image_unref(img); return n;
}
int main(void){
    int a1=count(PIXMAN_a1), a8=count(PIXMAN_a8);
    printf("covered pixels: a1 %d, a8 %d (expected %d: columns 10..63 of 8 rows)\n",a1,a8,54*8);
    int bad=(a1!=54*8); puts(bad?"FAIL":"PASS"); return bad;
}
