/* F55: pixman_image_set_indexed stores into bits.indexed whatever the image is; pixman_image_set_dither and
 * pixman_image_set_accessors test type == BITS first.  In the image union that field overlays solid.color_32 / color_float of a solid
 * fill (and gradient.stops of a gradient), so the palette setter rewrites a solid image's colour.
 * exit 0: colour unchanged; exit 1: changed */
#include <stdio.h>
#include "pixman.h"
static uint32_t draw (pixman_image_t *src)
{
    uint32_t px = 0;
    pixman_image_t *d = pixman_image_create_bits (PIXMAN_a8r8g8b8, 1, 1, &px, 4);
    pixman_image_composite32 (PIXMAN_OP_SRC, src, NULL, d, 0, 0, 0, 0, 0, 0, 1, 1);
    pixman_image_unref (d);
    return px;
}
int main (void)
{
    static pixman_indexed_t palette;
    pixman_color_t red = { 0xffff, 0, 0, 0xffff };
    pixman_image_t *solid = pixman_image_create_solid_fill (&red);
    uint32_t before = draw (solid), after;
    pixman_image_set_indexed (solid, &palette);
    after = draw (solid);
    printf ("solid red before set_indexed: %08x, after set_indexed (solid, &palette): %08x\n", before, after);
    pixman_image_set_indexed (solid, NULL);
    printf ("after set_indexed (solid, NULL): %08x\n", draw (solid));
    return before == after && draw (solid) == before ? 0 : 1;
}
