/* F19: __bits_image_fetch_general divides the homogeneous coordinates with `((uint64_t)x << 16) / w`: the cast makes the division unsigned,
 * so for a negative x (or y, or w) and a w that is not a power of two the quotient is garbage.  The same mapping written with w = 1 is
 * sampled correctly.  Source 8x8 with REPEAT_NORMAL, translation by (-5.25, -3.25): the transform {3,0,-15.75; 0,3,-9.75; 0,0,3} describes
 * exactly the same map as {1,0,-5.25; 0,1,-3.25; 0,0,1}.
 * build: cc -I/repo/pixman -I/repo/_build/pixman probe.c -L/repo/_build/pixman -lpixman-1 -lm */
#include <stdio.h>
#include <pixman.h>
#define N 8
static void run (int w3, uint32_t *out)
{
    static uint32_t src[N * N];
    pixman_image_t *s, *d;
    pixman_transform_t t;
    int i;
    double k = w3 ? 3.0 : 1.0;
    for (i = 0; i < N * N; i++) src[i] = 0xff000000 | (i * 0x030507);
    s = pixman_image_create_bits (PIXMAN_a8r8g8b8, N, N, src, N * 4);
    d = pixman_image_create_bits (PIXMAN_a8r8g8b8, N, N, out, N * 4);
    pixman_transform_init_identity (&t);
    t.matrix[0][0] = pixman_double_to_fixed (k);  t.matrix[0][2] = pixman_double_to_fixed (-5.25 * k);
    t.matrix[1][1] = pixman_double_to_fixed (k);  t.matrix[1][2] = pixman_double_to_fixed (-3.25 * k);
    t.matrix[2][2] = pixman_double_to_fixed (k);
    pixman_image_set_transform (s, &t);
    pixman_image_set_repeat (s, PIXMAN_REPEAT_NORMAL);
    pixman_image_set_filter (s, PIXMAN_FILTER_NEAREST, NULL, 0);
    pixman_image_composite32 (PIXMAN_OP_SRC, s, NULL, d, 0, 0, 0, 0, 0, 0, N, N);
    pixman_image_unref (s); pixman_image_unref (d);
}
int main (void)
{
    uint32_t a[N * N], b[N * N];
    int i, bad = 0;
    run (0, a); run (1, b);
    for (i = 0; i < N * N; i++)
	if (a[i] != b[i]) { if (bad < 3) printf ("pixel (%d,%d): w = 1 gives %08x, the same map with w = 3 gives %08x\n", i % N, i / N, a[i], b[i]); bad++; }
    printf (bad ? "FAIL: %d of %d pixels differ\n" : "PASS\n", bad, N * N);
    return bad != 0;
}
