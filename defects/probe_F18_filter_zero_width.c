/* F18: pixman_filter_create_separable_convolution with an IMPULSE reconstruction and IMPULSE sampling kernel computes a filter width of 0;
 * create_1d_filter then still executes `*(p - width) += pixman_fixed_1 - new_total` for every phase, i.e. writes one pixman_fixed_t at
 * the position after the (empty) phase: the x pass overwrites the start of the y table / the element after it, the y pass writes past the
 * end of the 4-entry block (heap overflow); it also divides 65536.0 by a zero total.
 * The filter source is compiled into this program so that AddressSanitizer sees the store.
 * build: clang -fsanitize=address -g -DHAVE_CONFIG_H -I/repo/_build/pixman -I/repo/pixman probe.c -lm */
#include <stdio.h>
#include <stdlib.h>
#include "pixman-filter.c"

pixman_bool_t _pixman_multiply_overflows_int (unsigned int a, unsigned int b) { return a >= 0x7fffffff / (b ? b : 1); }
pixman_bool_t _pixman_addition_overflows_int (unsigned int a, unsigned int b) { return a > 0x7fffffff - b; }
void *pixman_malloc_ab (unsigned int a, unsigned int b) { return malloc ((size_t) a * b); }

int main (void)
{
    int n;
    pixman_fixed_t *p = pixman_filter_create_separable_convolution (&n, pixman_fixed_1, pixman_fixed_1,
								     PIXMAN_KERNEL_IMPULSE, PIXMAN_KERNEL_IMPULSE,
								     PIXMAN_KERNEL_IMPULSE, PIXMAN_KERNEL_IMPULSE, 1, 1);
    printf ("n_values = %d, width = %d, height = %d\n", n, p ? p[0] >> 16 : -1, p ? p[1] >> 16 : -1);
    free (p);
    printf ("PASS (no out-of-bounds write detected)\n");
    return 0;
}
