/* F49 (written by a seeding sub-agent as suspect1.c; exit status added): conical gradient, REPEAT_NONE (the default), centre on a pixel
 * centre.  Pixels exactly on the ray of angle 0 get t == 1.0 exactly, which
 * the walker treats as "past the last stop" -> transparent. */
#include <stdio.h>
#include <unistd.h>
#include "pixman.h"
int main (void)
{
    static uint32_t bits[8 * 8];
    pixman_gradient_stop_t stops[2] = {
	{ 0,              { 0xffff, 0x0000, 0x0000, 0xffff } },
	{ pixman_fixed_1, { 0x0000, 0x0000, 0xffff, 0xffff } },
    };
    pixman_point_fixed_t c = { pixman_int_to_fixed (4) + pixman_fixed_1 / 2,
			       pixman_int_to_fixed (4) + pixman_fixed_1 / 2 };
    pixman_image_t *g, *d;
    int x, y;
    alarm (20);
    g = pixman_image_create_conical_gradient (&c, 0, stops, 2);
    d = pixman_image_create_bits (PIXMAN_a8r8g8b8, 8, 8, bits, 32);
    pixman_image_composite32 (PIXMAN_OP_SRC, g, NULL, d, 0, 0, 0, 0, 0, 0, 8, 8);
    for (y = 3; y < 6; y++)
    {
	printf ("row %d:", y);
	for (x = 0; x < 8; x++)
	    printf (" %08x", bits[y * 8 + x]);
	printf ("\n");
    }
    /* an opaque gradient must not produce a transparent pixel */
    for (x = 0; x < 64; x++)
	if ((bits[x] >> 24) != 0xff)
	{
	    printf ("FAIL: pixel (%d,%d) = %08x is not opaque\n", x % 8, x / 8, bits[x]);
	    return 1;
	}
    printf ("PASS\n");
    return 0;
}
