/* F17: the general-path convolution fetchers accumulate into unsigned totals (accum_32 / reduce_32 in pixman-bits-image.c), so a channel
 * total that is negative (kernels with negative lobes: LANCZOS, CUBIC) wraps and is clipped to 0xff instead of 0; the C fast path
 * (bits_image_fetch_separable_convolution_affine) accumulates in int32_t and gives 0.  Same request, two implementations, different pixels.
 * The program re-executes itself with PIXMAN_DISABLE=fast and compares.
 * build: cc -I/repo/pixman -I/repo/_build/pixman probe.c -L/repo/_build/pixman -lpixman-1 -lm */
#include <stdio.h>
#include <stdlib.h>
#include <string.h>
#include <unistd.h>
#include <pixman.h>

#define W 32
#define H 4
static void render (uint32_t *out)
{
    static uint32_t src[W * H];
    int i, n;
    pixman_image_t *s, *d;
    pixman_transform_t t;
    pixman_fixed_t *params;
    for (i = 0; i < W * H; i++)
	src[i] = ((i % W) % 7 == 3) ? 0xffffffff : 0xff000000;     /* isolated bright columns on black, opaque */
    s = pixman_image_create_bits (PIXMAN_a8r8g8b8, W, H, src, W * 4);
    d = pixman_image_create_bits (PIXMAN_a8r8g8b8, W, H, out, W * 4);
    params = pixman_filter_create_separable_convolution (&n, pixman_double_to_fixed (1.0), pixman_double_to_fixed (1.0),
							  PIXMAN_KERNEL_LANCZOS3, PIXMAN_KERNEL_LANCZOS3, PIXMAN_KERNEL_IMPULSE, PIXMAN_KERNEL_IMPULSE, 4, 4);
    pixman_image_set_filter (s, PIXMAN_FILTER_SEPARABLE_CONVOLUTION, params, n);
    pixman_transform_init_translate (&t, pixman_double_to_fixed (0.5), 0);       /* sample between pixel centres: lobes on pixels */
    pixman_image_set_transform (s, &t);
    pixman_image_set_repeat (s, PIXMAN_REPEAT_PAD);
    pixman_image_composite32 (PIXMAN_OP_SRC, s, NULL, d, 0, 0, 0, 0, 0, 0, W, H);
    free (params); pixman_image_unref (s); pixman_image_unref (d);
}

int main (int argc, char **argv)
{
    static uint32_t a[W * H], b[W * H];
    int i, bad = 0;
    if (argc > 1)
    {   /* child: render under the inherited PIXMAN_DISABLE and dump */
	FILE *o = fopen (argv[1], "wb"); render (a); fwrite (a, 4, W * H, o); fclose (o); return 0;
    }
    render (a);
    {
	char cmd[512]; FILE *p;
	char tmpl[] = "/tmp/f17.XXXXXX"; int fd = mkstemp (tmpl);
	if (fd < 0) return 2;
	close (fd);
	snprintf (cmd, sizeof cmd, "PIXMAN_DISABLE=fast %s %s > /dev/null", argv[0], tmpl);
	if (system (cmd) != 0) { printf ("could not run child\n"); return 2; }
	p = fopen (tmpl, "rb");
	if (!p || fread (b, 4, W * H, p) != W * H) { printf ("could not read child output\n"); return 2; }
	fclose (p); unlink (tmpl);
    }
    for (i = 0; i < W * H; i++)
	if (a[i] != b[i])
	{
	    if (bad < 4) printf ("pixel (%d,%d): default chain %08x, PIXMAN_DISABLE=fast %08x\n", i % W, i / W, a[i], b[i]);
	    bad++;
	}
    printf (bad ? "FAIL: %d pixels differ between the C fast path and the general path\n" : "PASS\n", bad);
    return bad != 0;
}
