/* F37: the direct route of pixman_composite_trapezoids (ADD, opaque source, a8 destination, no destination clip) ignores a source clip
 * that the mask route honours (clip_sources + client clip): coverage is added outside the source's clip. */
#include <stdio.h>
#include <string.h>
#include <pixman.h>
static void run(int force_mask_route, uint8_t *d){
    memset(d,0,16*16);
    pixman_image_t *dst=pixman_image_create_bits(PIXMAN_a8,16,16,(uint32_t*)d,16);
    uint32_t sp[16*16]; for(int i=0;i<256;i++) sp[i]=0xffffffff;
    pixman_image_t *s=pixman_image_create_bits(PIXMAN_x8r8g8b8,16,16,sp,64);
    pixman_image_set_repeat(s,PIXMAN_REPEAT_NORMAL);           /* alpha-less + repeat: opaque */
    pixman_region32_t clip; pixman_region32_init_rect(&clip,0,0,8,16);
    pixman_image_set_clip_region32(s,&clip); pixman_image_set_source_clipping(s,1); pixman_image_set_has_client_clip(s,1);
    if(force_mask_route){ pixman_region32_t dc; pixman_region32_init_rect(&dc,0,0,16,16); pixman_image_set_clip_region32(dst,&dc); }
    pixman_trapezoid_t t; t.top=pixman_int_to_fixed(2); t.bottom=pixman_int_to_fixed(14);
    t.left.p1.x=pixman_int_to_fixed(2); t.left.p1.y=t.top; t.left.p2.x=pixman_int_to_fixed(2); t.left.p2.y=t.bottom;
    t.right.p1.x=pixman_int_to_fixed(14); t.right.p1.y=t.top; t.right.p2.x=pixman_int_to_fixed(14); t.right.p2.y=t.bottom;
    pixman_composite_trapezoids(PIXMAN_OP_ADD,s,dst,PIXMAN_a8,0,0,0,0,1,&t);
    pixman_image_unref(dst); pixman_image_unref(s);
}
int main(void){
    static uint8_t a[256],b[256]; run(0,a); run(1,b);
    printf("pixel (12,5): direct route %02x, mask route (same request, destination clip covering everything) %02x\n",a[5*16+12],b[5*16+12]);
    int bad=memcmp(a,b,256)!=0; puts(bad?"FAIL":"PASS"); return bad;
}
