/* F42: an image of width 0 with REPEAT_NONE is transparent everywhere, which the general fetchers get right; the scaled bilinear fast
 * paths (and the cover iterators) address its pixels directly: the left and right transition zones of a 0-wide source overlap, one pixel
 * is written past the end of the destination span, and src[0] / src[-1] of an image without pixels are read. */
#include <stdio.h>
#include <stdlib.h>
#include <string.h>
#include <unistd.h>
#include <signal.h>
#include <sys/wait.h>
#include <sys/mman.h>
#include <pixman.h>
static int one(int w,int h){
    pid_t p=fork();
    if(!p){
        alarm(5);
        uint8_t *page=mmap(NULL,8192,PROT_READ|PROT_WRITE,MAP_PRIVATE|MAP_ANONYMOUS,-1,0);
        mprotect(page+4096,4096,PROT_NONE);
        uint32_t *d=(uint32_t*)(page+4096-8*2*4);           /* destination ends at the inaccessible page */
        uint32_t sb[8]={0};
        pixman_image_t *src=pixman_image_create_bits(PIXMAN_a8r8g8b8,w,h,sb,16);
        pixman_image_t *dst=pixman_image_create_bits(PIXMAN_a8r8g8b8,8,2,d,32);
        pixman_transform_t t; pixman_transform_init_scale(&t,pixman_double_to_fixed(0.5),pixman_double_to_fixed(0.5));
        pixman_image_set_transform(src,&t); pixman_image_set_filter(src,PIXMAN_FILTER_BILINEAR,NULL,0);
        pixman_image_composite32(PIXMAN_OP_SRC,src,NULL,dst,0,0,0,0,0,0,8,2);
        _exit(0);
    }
    int st; waitpid(p,&st,0); return WIFSIGNALED(st)?WTERMSIG(st):0;
}
int main(void){
    int bad=0,s;
    if((s=one(0,2))){ printf("0x2 source, bilinear, scale 0.5, REPEAT_NONE: killed by signal %d\n",s); bad++; }
    if((s=one(2,0))){ printf("2x0 source, bilinear, scale 0.5, REPEAT_NONE: killed by signal %d\n",s); bad++; }
    puts(bad?"FAIL":"PASS"); return bad?1:0;
}
