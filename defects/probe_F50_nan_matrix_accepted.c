/* F50: pixman_transform_from_pixman_f_transform tests `d < -32767.0 || d > 32767.0`; both comparisons are false for NaN, so a NaN
 * entry is accepted, converted (undefined; 0x80000000 on x86) and reported as success.  pixman_transform_invert inherits it.
 * exit 0: NaN refused; exit 1: accepted */
#include <stdio.h>
#include <math.h>
#include "pixman.h"
int main (void)
{
    struct pixman_f_transform ft;
    struct pixman_transform t;
    pixman_bool_t ok;
    pixman_f_transform_init_identity (&ft);
    ft.m[0][2] = NAN;
    ok = pixman_transform_from_pixman_f_transform (&t, &ft);
    printf ("from_pixman_f_transform (NaN entry) returned %d, stored 0x%08x\n", ok, (unsigned) t.matrix[0][2]);
    return ok ? 1 : 0;
}
