/*
 * F45 (known finding): pixman_composite_trapezoids() sizes its temporary mask from the
 * x coordinates of the END POINTS of the two lines (get_trap_extents), but a
 * trapezoid is bounded by the lines EXTENDED to y = top and y = bottom.  When
 * an end point lies strictly between top and bottom the shape reaches beyond
 * the box and the general route cuts it off, while rasterising the same
 * trapezoid into a full-size mask and compositing that does not.
 */
#include <stdio.h>
#include <stdlib.h>
#include <string.h>
#include "pixman.h"

#define W 64
#define H 44

int
main (void)
{
    pixman_color_t white = { 0xffff, 0xffff, 0xffff, 0xffff };
    pixman_image_t *src = pixman_image_create_solid_fill (&white);
    pixman_image_t *d1 = pixman_image_create_bits (PIXMAN_a8r8g8b8, W, H, NULL, 0);
    pixman_image_t *d2 = pixman_image_create_bits (PIXMAN_a8r8g8b8, W, H, NULL, 0);
    pixman_image_t *mask = pixman_image_create_bits (PIXMAN_a8, W, H, NULL, 0);
    pixman_trapezoid_t t;
    uint32_t *p1, *p2;
    int x, y, bad = 0, fx = -1, fy = -1;

    t.top = pixman_int_to_fixed (0);
    t.bottom = pixman_int_to_fixed (40);
    t.left.p1.x = pixman_int_to_fixed (10);	/* slope 0.2 px / row */
    t.left.p1.y = pixman_int_to_fixed (15);
    t.left.p2.x = pixman_int_to_fixed (12);
    t.left.p2.y = pixman_int_to_fixed (25);
    t.right.p1.x = pixman_int_to_fixed (30);	/* slope 1 px / row: x = 55 at y = 40 */
    t.right.p1.y = pixman_int_to_fixed (15);
    t.right.p2.x = pixman_int_to_fixed (40);
    t.right.p2.y = pixman_int_to_fixed (25);

    /* route A: the entry point (general route: OVER onto a8r8g8b8) */
    pixman_composite_trapezoids (PIXMAN_OP_OVER, src, d1, PIXMAN_a8,
				 0, 0, 0, 0, 1, &t);

    /* route B: rasterise into a mask as big as the destination, composite */
    pixman_rasterize_trapezoid (mask, &t, 0, 0);
    pixman_image_composite32 (PIXMAN_OP_OVER, src, mask, d2,
			      0, 0, 0, 0, 0, 0, W, H);

    p1 = pixman_image_get_data (d1);
    p2 = pixman_image_get_data (d2);
    for (y = 0; y < H; ++y)
    {
	for (x = 0; x < W; ++x)
	{
	    if (p1[y * W + x] != p2[y * W + x])
	    {
		if (!bad)
		{
		    fx = x;
		    fy = y;
		}
		bad++;
	    }
	}
    }

    printf ("pixels differing between pixman_composite_trapezoids and "
	    "mask + composite: %d\n", bad);
    if (bad)
    {
	printf ("first difference at (%d,%d): composite_trapezoids %08x, "
		"mask+composite %08x\n", fx, fy,
		p1[fy * W + fx], p2[fy * W + fx]);
	printf ("row 39, x = 36..56  composite_trapezoids: ");
	for (x = 36; x <= 56; ++x)
	    printf ("%02x ", p1[39 * W + x] >> 24);
	printf ("\nrow 39, x = 36..56  mask + composite     : ");
	for (x = 36; x <= 56; ++x)
	    printf ("%02x ", p2[39 * W + x] >> 24);
	printf ("\n");
    }
    puts (bad ? "FAIL" : "PASS");
    return bad ? 1 : 0;
}
