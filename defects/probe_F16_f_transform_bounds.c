/* F16: pixman_f_transform_bounds stores floor/ceil of the transformed corners into int16 box fields without any range check
 * and returns TRUE with a wrapped box.  build: cc -I/repo/pixman -I/repo/_build/pixman probe.c -L/repo/_build/pixman -lpixman-1 -lm */
#include <stdio.h>
#include <pixman.h>
int main (void)
{
    struct pixman_transform t;
    struct pixman_f_transform f;
    pixman_box16_t b = { 0, 0, 20000, 100 };
    pixman_bool_t r;
    pixman_transform_init_scale (&t, pixman_int_to_fixed (4), pixman_int_to_fixed (1));   /* an ordinary 16.16 matrix */
    pixman_f_transform_from_pixman_transform (&f, &t);
    r = pixman_f_transform_bounds (&f, &b);
    printf ("returned %d, box = (%d,%d)-(%d,%d); the transformed corners span x = 0..80000\n", r, b.x1, b.y1, b.x2, b.y2);
    if (r && b.x2 < 20000) { printf ("FAIL: TRUE returned with a wrapped box that does not contain the corners\n"); return 1; }
    printf ("PASS\n"); return 0;
}
