/* F20: pixman_edge_step (e, n) stores the advanced error term only when a carry into x happens.  When n >= 0 and e + n*dx <= 0
 * (or n < 0 and e + n*dx > -dy) the function returns with e->e unchanged, i.e. the n*dx that was just stepped over is forgotten.
 * Consequence: stepping by a and then by b is not the same as stepping by a + b; the edge ends up one 1/65536 further left.
 * build: cc -I/repo/pixman -I/repo/_build/pixman probe.c -L/repo/_build/pixman -lpixman-1 -lm */
#include <stdio.h>
#include <pixman.h>
int main (void)
{
    pixman_edge_t e1, e2;
    /* a shallow edge: 10 px across, 1000 px down; dx = 10.0 % 1000.0 ... dy = 65536000, dx = 655360 */
    pixman_fixed_t x_top = 0, y_top = 0, x_bot = pixman_int_to_fixed (10), y_bot = pixman_int_to_fixed (1000);
    int a = 60, b = 60, bad = 0;
    pixman_edge_init (&e1, 8, y_top, x_top, y_top, x_bot, y_bot);     /* n = 0 */
    e2 = e1;
    pixman_edge_step (&e1, a);
    pixman_edge_step (&e1, b);
    pixman_edge_step (&e2, a + b);
    printf ("step %d then %d: x = %d, e = %lld;  step %d at once: x = %d, e = %lld  (dy = %lld, dx = %lld)\n",
	    a, b, e1.x, (long long) e1.e, a + b, e2.x, (long long) e2.e, (long long) e1.dy, (long long) e1.dx);
    if (e1.x != e2.x || e1.e != e2.e) { printf ("FAIL: the two ways of stepping over the same %d sample rows disagree\n", a + b); bad = 1; }
    else printf ("PASS\n");
    return bad;
}
