/* F53 (seeding sub-agent's suspect2.c; exit status added): a repeating gradient whose stops all have alpha 0xffff is flagged
 * FAST_PATH_IS_OPAQUE (compute_image_info), so OVER is turned into SRC.  The
 * gradient walker (gradient_walker_reset) computes the colour of a sample from
 * la*rx - ra*lx in single precision; far from the origin of a NORMAL/REFLECT
 * repeat and between two close stops this cancels badly and the samples are
 * not opaque at all.  Public API only; prints what it saw.
 */
#include <stdio.h>
#include <stdlib.h>
#include <string.h>
#include <stdint.h>
#include <unistd.h>
#include "pixman.h"

#define W 256
#define H 4

int
main (void)
{
    pixman_gradient_stop_t stops[4];
    pixman_point_fixed_t p1 = { 0, 0 }, p2 = { pixman_int_to_fixed (1), 0 };
    pixman_image_t *grad, *dst, *tmp;
    uint32_t direct[W * H], via_tmp[W * H], tmpbuf[W * H];
    int i, off, n_not_opaque = 0, n_diff = 0, shown = 0;
    unsigned min_a = 255, max_a = 0;

    alarm (60);

    stops[0].x = 0;          stops[1].x = 0x8000;     stops[2].x = 0x8000 + 0x40; stops[3].x = 0x10000;
    for (i = 0; i < 4; i++)
    {
	stops[i].color.alpha = 0xffff;
	stops[i].color.red = i & 1 ? 0xffff : 0x2000;
	stops[i].color.green = 0x8000;
	stops[i].color.blue = i & 2 ? 0xffff : 0x1000;
    }

    for (off = 0; off <= 32000; off += 4000)
    {
	pixman_transform_t t;

	grad = pixman_image_create_linear_gradient (&p1, &p2, stops, 4);
	pixman_image_set_repeat (grad, PIXMAN_REPEAT_NORMAL);
	/* step 1/256 pixel per destination pixel, so that consecutive samples
	 * walk slowly through the narrow interval between stops 1 and 2 */
	pixman_transform_init_scale (&t, 0x100, 0x100);
	pixman_transform_translate (&t, NULL, pixman_int_to_fixed (off) + 0x7f80, 0);
	pixman_image_set_transform (grad, &t);

	for (i = 0; i < W * H; i++)
	    direct[i] = via_tmp[i] = 0xff00ff00;	/* opaque green */

	dst = pixman_image_create_bits (PIXMAN_a8r8g8b8, W, H, direct, W * 4);
	pixman_image_composite32 (PIXMAN_OP_OVER, grad, NULL, dst, 0, 0, 0, 0, 0, 0, W, H);
	pixman_image_unref (dst);

	/* the same gradient as an a8r8g8b8 image, then OVER */
	memset (tmpbuf, 0, sizeof tmpbuf);
	tmp = pixman_image_create_bits (PIXMAN_a8r8g8b8, W, H, tmpbuf, W * 4);
	pixman_image_composite32 (PIXMAN_OP_SRC, grad, NULL, tmp, 0, 0, 0, 0, 0, 0, W, H);
	dst = pixman_image_create_bits (PIXMAN_a8r8g8b8, W, H, via_tmp, W * 4);
	pixman_image_composite32 (PIXMAN_OP_OVER, tmp, NULL, dst, 0, 0, 0, 0, 0, 0, W, H);
	pixman_image_unref (dst);
	pixman_image_unref (tmp);
	pixman_image_unref (grad);

	for (i = 0; i < W * H; i++)
	{
	    unsigned a = tmpbuf[i] >> 24;

	    if (a < min_a) min_a = a;
	    if (a > max_a) max_a = a;
	    if (a != 0xff)
		n_not_opaque++;
	    if (direct[i] != via_tmp[i])
	    {
		if (shown < 6)
		{
		    printf ("  offset %5d pixel (%3d,%d): gradient sample %08x; OVER of the gradient -> %08x, "
			    "OVER of its a8r8g8b8 copy -> %08x\n",
			    off, i % W, i / W, tmpbuf[i], direct[i], via_tmp[i]);
		    shown++;
		}
		n_diff++;
	    }
	}
    }
    printf ("gradient with all stops at alpha 0xffff, REPEAT_NORMAL: %d samples are not opaque "
	    "(alpha byte between %#x and %#x); %d destination pixels differ between OVER of the "
	    "gradient and OVER of its a8r8g8b8 rendering\n", n_not_opaque, min_a, max_a, n_diff);
    return n_not_opaque ? 1 : 0;
}
