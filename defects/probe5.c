#include <stdio.h>
#include <stdlib.h>
#include "pixman.h"
static int destroyed=0; static void dfn(pixman_image_t*i, void*d){ destroyed++; }
int main(int argc,char**argv){
  pixman_image_t *A = pixman_image_create_bits(PIXMAN_a8r8g8b8, 4,4,NULL,0);
  pixman_image_set_destroy_function(A, dfn, NULL);
  pixman_image_set_alpha_map(A, A, 0, 0);
  printf("self-attach done\n"); fflush(stdout);
  if (argc>1){ pixman_image_t *D = pixman_image_create_bits(PIXMAN_a8r8g8b8, 4,4,NULL,0);
    pixman_image_composite32(PIXMAN_OP_SRC, A, NULL, D, 0,0,0,0,0,0,4,4); printf("composite done\n"); }
  pixman_bool_t r = pixman_image_unref(A);
  printf("unref returned %d destroyed=%d\n", r, destroyed);
}
