/* F14: two empty regions compare unequal because equal() compares the (undefined) extents of empty regions first */
#include <stdio.h>
#include "pixman.h"
int main (void)
{
    pixman_region32_t a, b, e;
    pixman_region32_init_rect (&a, 10, 10, 10, 10);
    pixman_region32_init_rect (&b, 30, 30, 10, 10);
    pixman_region32_init (&e);
    pixman_region32_intersect (&a, &a, &b);          /* disjoint: a becomes empty */
    printf ("a: n_rects=%d not_empty=%d selfcheck=%d; equal(a, freshly initialised empty region)=%d (expected 1)\n",
            pixman_region32_n_rects (&a), pixman_region32_not_empty (&a), pixman_region32_selfcheck (&a), pixman_region32_equal (&a, &e));
    return 0;
}
