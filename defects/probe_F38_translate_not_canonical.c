/* F38: the overflow path of pixman_region_translate clamps boxes to the coordinate limits but does not re-coalesce: two bands whose boxes
 * become identical in x stay two rectangles, so the region is not in canonical form and is not equal() to the same point set. */
#include <stdio.h>
#include <stdint.h>
#include <pixman.h>
int main(void){
    int bad=0;
    { pixman_box32_t b[2]={{0,0,10,10},{0,10,20,20}}; pixman_region32_t r,e;
      pixman_region32_init_rects(&r,b,2); pixman_region32_translate(&r,INT32_MAX-5,0);
      pixman_region32_init_rect(&e,INT32_MAX-5,0,5,20);
      printf("region32: %d rectangle(s) after translate, equal to the one-rectangle region with the same points: %d\n",pixman_region32_n_rects(&r),pixman_region32_equal(&r,&e));
      if(pixman_region32_n_rects(&r)!=1||!pixman_region32_equal(&r,&e)) bad++; }
    { pixman_box16_t b[2]={{0,0,10,10},{0,10,20,20}}; pixman_region16_t r,e;
      pixman_region_init_rects(&r,b,2); pixman_region_translate(&r,32760,0);
      pixman_region_init_rect(&e,32760,0,7,20);
      printf("region16: %d rectangle(s) after translate, equal: %d\n",pixman_region_n_rects(&r),pixman_region_equal(&r,&e));
      if(pixman_region_n_rects(&r)!=1||!pixman_region_equal(&r,&e)) bad++; }
    puts(bad?"FAIL":"PASS"); return bad;
}
