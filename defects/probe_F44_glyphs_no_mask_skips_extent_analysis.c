/* suspect1: pixman_composite_glyphs_no_mask() hands the source image to the
 * composite fast paths without the checks that pixman_image_composite32()
 * makes in analyze_extent() (source width < 0x7fff, transformed coordinates
 * representable in 16.16).  With a source wider than 32767 pixels the
 * scaled bilinear fast path steps its 16.16 x coordinate past 32768.0, it
 * wraps to -32768.0 and pixels are read 128 KB in front of the row.
 *
 * The source is placed behind a PROT_NONE area so that such a read faults.
 */
#include <stdio.h>
#include <stdlib.h>
#include <string.h>
#include <stdint.h>
#include <signal.h>
#include <setjmp.h>
#include <unistd.h>
#include <sys/mman.h>
#include "pixman.h"

#define SRC_W	40000
#define SRC_H	2
#define GUARD	(512 * 1024)

static sigjmp_buf jb;
static volatile void *fault_addr;

static void
on_segv (int sig, siginfo_t *si, void *ctx)
{
    (void) sig; (void) ctx;
    fault_addr = si->si_addr;
    siglongjmp (jb, 1);
}

int
main (void)
{
    size_t src_size = (size_t) SRC_W * 4 * SRC_H;
    size_t map_size = GUARD + ((src_size + 4095) & ~(size_t) 4095) + GUARD;
    uint8_t *map;
    uint32_t *src_bits, *dst_bits;
    uint8_t *glyph_bits;
    pixman_image_t *src, *dst, *glyph_img;
    pixman_glyph_cache_t *cache;
    pixman_glyph_t g;
    const void *glyph;
    pixman_transform_t t;
    struct sigaction sa;
    int i, src_x;

    alarm (20);

    /* The SSE2 scanline functions keep x in an intptr_t and so do not wrap
     * on 64 bit machines; the MMX ones (used where there is no SSE2, or
     * with PIXMAN_DISABLE) keep it in a pixman_fixed_t.  The implementations
     * are chosen when the library is loaded, hence the re-exec.
     */
    if (!getenv ("PIXMAN_DISABLE"))
    {
	setenv ("PIXMAN_DISABLE", "sse2 ssse3", 1);
	execv ("/proc/self/exe", (char *[]) { "suspect1", NULL });
	perror ("execv");
	return 2;
    }

    map = mmap (NULL, map_size, PROT_READ | PROT_WRITE,
		MAP_PRIVATE | MAP_ANONYMOUS, -1, 0);
    if (map == MAP_FAILED)
	return 2;
    mprotect (map, GUARD, PROT_NONE);
    mprotect (map + map_size - GUARD, GUARD, PROT_NONE);
    src_bits = (uint32_t *) (map + GUARD);
    for (i = 0; i < SRC_W * SRC_H; i++)
	src_bits[i] = 0xff204060;

    dst_bits = calloc (2000, 4);
    glyph_bits = malloc (1000);
    memset (glyph_bits, 0xff, 1000);

    src = pixman_image_create_bits (PIXMAN_a8r8g8b8, SRC_W, SRC_H, src_bits, SRC_W * 4);
    dst = pixman_image_create_bits (PIXMAN_a8r8g8b8, 2000, 1, dst_bits, 2000 * 4);
    glyph_img = pixman_image_create_bits (PIXMAN_a8, 1000, 1, (uint32_t *) glyph_bits, 1000);
    if (!src || !dst || !glyph_img)
    {
	printf ("could not create the images\n");
	return 2;
    }

    pixman_transform_init_scale (&t, pixman_double_to_fixed (1.5), pixman_fixed_1);
    pixman_image_set_transform (src, &t);
    pixman_image_set_filter (src, PIXMAN_FILTER_BILINEAR, NULL, 0);
    pixman_image_set_repeat (src, PIXMAN_REPEAT_PAD);

    cache = pixman_glyph_cache_create ();
    pixman_glyph_cache_freeze (cache);
    glyph = pixman_glyph_cache_insert (cache, NULL, NULL, 0, 0, glyph_img);
    if (!glyph)
    {
	printf ("could not insert the glyph\n");
	return 2;
    }
    g.x = 0;
    g.y = 0;
    g.glyph = glyph;

    memset (&sa, 0, sizeof sa);
    sa.sa_sigaction = on_segv;
    sa.sa_flags = SA_SIGINFO | SA_NODEFER;
    sigaction (SIGSEGV, &sa, NULL);
    sigaction (SIGBUS, &sa, NULL);

    src_x = 21333;	/* 21333.5 * 1.5 = 32000.25: the row ends at about 33500 */

    /* the same request through pixman_image_composite32, for comparison */
    if (sigsetjmp (jb, 1))
    {
	printf ("pixman_image_composite32: fault at %p\n", (void *) fault_addr);
	return 1;
    }
    pixman_image_composite32 (PIXMAN_OP_OVER, src, glyph_img, dst,
			      src_x, 0, 0, 0, 0, 0, 1000, 1);
    printf ("pixman_image_composite32: returned, dst[0]=%08x dst[999]=%08x "
	    "(request dropped: source wider than 32766)\n",
	    dst_bits[0], dst_bits[999]);

    if (sigsetjmp (jb, 1))
    {
	printf ("pixman_composite_glyphs_no_mask: fault reading %p; the source "
		"pixels are [%p, %p): %ld bytes in front of them\n",
		(void *) fault_addr, (void *) src_bits,
		(void *) ((uint8_t *) src_bits + src_size),
		(long) ((uint8_t *) src_bits - (uint8_t *) fault_addr));
	return 1;
    }
    pixman_composite_glyphs_no_mask (PIXMAN_OP_OVER, src, dst,
				     src_x, 0, 0, 0, cache, 1, &g);
    printf ("pixman_composite_glyphs_no_mask: returned, dst[0]=%08x dst[999]=%08x\n",
	    dst_bits[0], dst_bits[999]);

    pixman_glyph_cache_thaw (cache);
    return 0;
}
