/* suspect2: pixman_region32_init_from_image() looks at the first word of
 * every row ("if (READ(pw) & mask0)") before it looks at the width, so for
 * an a1 image of width 0 (0 bytes of pixel storage, stride 0) it reads 4
 * bytes that do not belong to the image.
 */
#include <stdio.h>
#include <stdlib.h>
#include <string.h>
#include <stdint.h>
#include <signal.h>
#include <setjmp.h>
#include <unistd.h>
#include <sys/mman.h>
#include "pixman.h"

static sigjmp_buf jb;
static volatile void *fault_addr;

static void
on_segv (int sig, siginfo_t *si, void *ctx)
{
    (void) sig; (void) ctx;
    fault_addr = si->si_addr;
    siglongjmp (jb, 1);
}

int
main (void)
{
    long page = sysconf (_SC_PAGESIZE);
    uint8_t *map;
    uint32_t *bits;
    pixman_image_t *img;
    pixman_region32_t r;
    struct sigaction sa;

    alarm (20);

    map = mmap (NULL, 2 * page, PROT_READ | PROT_WRITE,
		MAP_PRIVATE | MAP_ANONYMOUS, -1, 0);
    if (map == MAP_FAILED)
	return 2;
    mprotect (map + page, page, PROT_NONE);

    /* zero bytes of storage, at the very end of the readable page */
    bits = (uint32_t *) (map + page);

    img = pixman_image_create_bits (PIXMAN_a1, 0, 3, bits, 0);
    if (!img)
    {
	printf ("a 0x3 a1 image is refused by pixman_image_create_bits\n");
	return 0;
    }
    printf ("created a1 image %dx%d stride %d\n",
	    pixman_image_get_width (img), pixman_image_get_height (img),
	    pixman_image_get_stride (img));

    memset (&sa, 0, sizeof sa);
    sa.sa_sigaction = on_segv;
    sa.sa_flags = SA_SIGINFO | SA_NODEFER;
    sigaction (SIGSEGV, &sa, NULL);
    sigaction (SIGBUS, &sa, NULL);

    if (sigsetjmp (jb, 1))
    {
	printf ("pixman_region32_init_from_image: fault reading %p "
		"(bits = %p, the image has no pixels)\n",
		(void *) fault_addr, (void *) bits);
	return 1;
    }

    pixman_region32_init_from_image (&r, img);
    printf ("pixman_region32_init_from_image returned, %d rectangles\n",
	    pixman_region32_n_rects (&r));
    return 0;
}
