/* F32: pixman_transform_translate / _rotate negate their argument for the reverse (and rotate: the forward) matrix in 32 bits.  For the
 * most negative 16.16 value the negation is not representable; TRUE is returned with the un-negated value in the matrix. */
#include <stdio.h>
#include <stdint.h>
#include <pixman.h>
int main(void){
    int bad=0;
    struct pixman_transform rev; pixman_transform_init_identity(&rev);
    pixman_bool_t ok=pixman_transform_translate(NULL,&rev,INT32_MIN,0);
    printf("translate (tx = -32768.0): returned %d, reverse tx entry = %d (exact +32768.0 = 2147483648 is not representable)\n",ok,rev.matrix[0][2]);
    if(ok) bad++;
    pixman_transform_init_identity(&rev);
    ok=pixman_transform_rotate(NULL,&rev,pixman_fixed_1,INT32_MIN);
    printf("rotate (s = -32768.0): returned %d, reverse m10 = %d\n",ok,rev.matrix[1][0]);
    if(ok) bad++;
    /* ordinary values still work */
    pixman_transform_init_identity(&rev);
    ok=pixman_transform_translate(NULL,&rev,pixman_int_to_fixed(5),-pixman_int_to_fixed(7));
    if(!ok||rev.matrix[0][2]!=-pixman_int_to_fixed(5)||rev.matrix[1][2]!=pixman_int_to_fixed(7)) bad++;
    puts(bad?"FAIL":"PASS"); return bad?1:0;
}
