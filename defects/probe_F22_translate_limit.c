#include <stdio.h>
#include "pixman.h"
/* F22: a rectangle that lands exactly on the coordinate limit after translate is wholly out of range and must disappear */
int main(void)
{
    int bad = 0;
    pixman_region16_t r; pixman_region32_t q;
    pixman_region_init_rect (&r, 0, 0, 10, 10);
    pixman_region_translate (&r, -32778, 0);         /* x2 = -32768 == MIN: no representable point is left */
    if (pixman_region_not_empty (&r)) { pixman_box16_t *e = pixman_region_extents (&r); printf ("region16: not empty after leaving the range: extents %d %d %d %d, n_rects %d\n", e->x1, e->y1, e->x2, e->y2, pixman_region_n_rects (&r)); bad++; }
    pixman_region32_init_rect (&q, 2147483647 - 5, 0, 3, 10);
    pixman_region32_translate (&q, 5, 0);            /* x1 = MAX */
    if (pixman_region32_not_empty (&q)) { pixman_box32_t *e = pixman_region32_extents (&q); printf ("region32: not empty: extents %d %d %d %d\n", e->x1, e->y1, e->x2, e->y2); bad++; }
    /* inside a list */
    {
        pixman_box32_t b[2] = { { 0, 0, 10, 10 }, { 2147483647 - 5, 20, 2147483647 - 2, 30 } };
        pixman_region32_t l; int i, n; pixman_box32_t *rc;
        pixman_region32_init_rects (&l, b, 2);
        pixman_region32_translate (&l, 5, 0);
        rc = pixman_region32_rectangles (&l, &n);
        for (i = 0; i < n; i++) if (rc[i].x1 >= rc[i].x2 || rc[i].y1 >= rc[i].y2) { printf ("list: empty rectangle %d %d %d %d kept\n", rc[i].x1, rc[i].y1, rc[i].x2, rc[i].y2); bad++; }
    }
    printf ("%s\n", bad ? "FAIL" : "PASS");
    return bad != 0;
}
