/* F6: pixman_transform_bounds rounds the transformed corners up with pixman_fixed_ceil, which adds 0xffff in 32 bits: a corner in
 * (32767.0, 32768.0) wraps, and TRUE is returned with a box that does not contain the corner. */
#include <stdio.h>
#include <pixman.h>
int main(void){
    struct pixman_transform t; pixman_transform_init_translate(&t,pixman_double_to_fixed(0.5),0);
    struct pixman_box16 b={0,0,32767,10};
    struct pixman_vector c={{pixman_int_to_fixed(32767),0,pixman_fixed_1}}; pixman_transform_point(&t,&c);
    pixman_bool_t ok=pixman_transform_bounds(&t,&b);
    printf("corner (32767,0) -> x = %.5f ; bounds returned %d, box x1=%d x2=%d\n",c.vector[0]/65536.0,ok,b.x1,b.x2);
    int bad = ok && !(b.x2*65536.0 >= c.vector[0]);
    /* an ordinary case still works */
    struct pixman_box16 b2={0,0,100,10}; if(!pixman_transform_bounds(&t,&b2)||b2.x1!=0||b2.x2!=101) bad++;
    puts(bad?"FAIL":"PASS"); return bad?1:0;
}
