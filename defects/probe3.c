#include <stdio.h>
#include <stdlib.h>
#include "pixman.h"
int main(){
  pixman_image_t *d = pixman_image_create_bits(PIXMAN_a1, 64, 4, NULL, 0);
  pixman_color_t c = {0xffff,0xffff,0xffff,0xffff};
  pixman_box32_t b = { 0, 0, 64, 4 };
  pixman_bool_t r = pixman_image_fill_boxes(PIXMAN_OP_SRC, d, &c, 1, &b);
  printf("ret=%d word0=0x%08x\n", r, pixman_image_get_data(d)[0]);
  uint32_t w=0; printf("pixman_fill a1 ret=%d\n", pixman_fill(&w,1,1,0,0,8,1,1));
  uint32_t buf[4]={0}; printf("pixman_fill 4bpp ret=%d\n", pixman_fill(buf,1,4,0,0,8,1,1));
}
