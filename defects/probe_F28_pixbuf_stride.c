/* F28: pixman_image_composite32 takes source and mask to be one "pixbuf" (colour and alpha of the same pixels) when their bits pointers,
 * repeat and origins agree, without comparing the row strides.  The pixbuf fast paths then read the alpha of row y from the source's
 * row y, although the mask's row y is elsewhere in the buffer. */
#include <stdio.h>
#include <string.h>
#include <stdlib.h>
#include <pixman.h>
static void run(int copy, uint32_t *out){
    static uint32_t buf[8*4], mcopy[8*4];
    for(int i=0;i<32;i++) buf[i]=((uint32_t)(0x20+i*7)<<24)|(0x010203u*(i+1)&0xffffff);
    memcpy(mcopy,buf,sizeof buf);
    memset(out,0,64);
    pixman_image_t *src=pixman_image_create_bits(PIXMAN_x8b8g8r8,4,4,buf,16);          /* rows 4 words apart */
    pixman_image_t *mask=pixman_image_create_bits(PIXMAN_a8r8g8b8,4,4,copy?mcopy:buf,32); /* rows 8 words apart */
    pixman_image_t *dst=pixman_image_create_bits(PIXMAN_a8r8g8b8,4,4,out,16);
    pixman_image_composite32(PIXMAN_OP_OVER,src,mask,dst,0,0,0,0,0,0,4,4);
    pixman_image_unref(src);pixman_image_unref(mask);pixman_image_unref(dst);
}
int main(void){
    uint32_t a[16],b[16]; run(0,a); run(1,b);
    int bad=0; for(int i=0;i<16;i++) if(a[i]!=b[i]) bad++;
    printf("%d of 16 pixels differ between a mask sharing the source's buffer and the same mask in a copy (first: %08x vs %08x)\n",bad,a[4],b[4]);
    puts(bad?"FAIL":"PASS"); return bad?1:0;
}
