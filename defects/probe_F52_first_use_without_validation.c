/* F52 (seeding sub-agent's suspect1.c; exit status added): entry points that return before validating
 * their source leave it "dirty", so a shared source whose first use was
 * such a refused request is written by the library on its next use.
 * Same set-up as demo1, but the first use is pixman_composite_trapezoids()
 * with n_traps == 0, or pixman_composite_glyphs() with a zero-sized mask.
 */
#define _GNU_SOURCE
#include <stdio.h>
#include <stdlib.h>
#include <string.h>
#include <stdint.h>
#include <signal.h>
#include <setjmp.h>
#include <unistd.h>
#include <sys/mman.h>
#include "pixman.h"

extern void *__libc_malloc (size_t);
extern void  __libc_free (void *);
static volatile int capture;
static char *cap_lo, *cap_hi;
void *malloc (size_t n)
{
    if (capture && n >= 64)
    {
	size_t len = (n + 4095) & ~(size_t)4095;
	char *p = mmap (NULL, len, PROT_READ | PROT_WRITE, MAP_PRIVATE | MAP_ANONYMOUS, -1, 0);
	capture = 0; cap_lo = p; cap_hi = p + len;
	return p;
    }
    return __libc_malloc (n);
}
void free (void *p)
{
    if ((char *)p >= cap_lo && (char *)p < cap_hi) return;
    __libc_free (p);
}

static sigjmp_buf env;
static void on_segv (int sig, siginfo_t *si, void *ctx)
{
    char *a = (char *)si->si_addr;
    siglongjmp (env, (a >= cap_lo && a < cap_hi) ? 1 : 2);
}

static uint32_t src_bits[16 * 16], dst_bits[16 * 16];

static int writes;
static void
try_first_use (const char *what, int which)
{
    pixman_image_t *src, *dst;
    int r;

    cap_lo = cap_hi = NULL;
    capture = 1;
    src = pixman_image_create_bits (PIXMAN_a8r8g8b8, 16, 16, src_bits, 64);
    capture = 0;
    dst = pixman_image_create_bits (PIXMAN_a8r8g8b8, 16, 16, dst_bits, 64);

    if (which == 0)
	pixman_composite_trapezoids (PIXMAN_OP_OVER, src, dst, PIXMAN_a8, 0, 0, 0, 0, 0, NULL);
    else if (which == 1)
	pixman_composite_glyphs (PIXMAN_OP_OVER, src, dst, PIXMAN_a8, 0, 0, 0, 0, 0, 0, 0, 0, NULL, 0, NULL);
    else
	pixman_image_composite32 (PIXMAN_OP_SRC, src, NULL, dst, 0, 0, 0, 0, 1000, 1000, 16, 16);

    mprotect (cap_lo, cap_hi - cap_lo, PROT_READ);
    if ((r = sigsetjmp (env, 1)) == 0)
    {
	pixman_image_composite32 (PIXMAN_OP_SRC, src, NULL, dst, 0, 0, 0, 0, 0, 0, 16, 16);
	printf ("%-55s: next use does not write the source\n", what);
    }
    else
    {
	printf ("%-55s: next use WRITES the shared source%s\n", what, r == 2 ? " (?)" : "");
	writes++;
    }
    mprotect (cap_lo, cap_hi - cap_lo, PROT_READ | PROT_WRITE);
    pixman_image_unref (dst);
}

int main (void)
{
    struct sigaction sa;
    alarm (30);
    memset (&sa, 0, sizeof sa);
    sa.sa_sigaction = on_segv; sa.sa_flags = SA_SIGINFO;
    sigaction (SIGSEGV, &sa, NULL);
    try_first_use ("first use = composite32 clipped away (reference)", 2);
    try_first_use ("first use = pixman_composite_trapezoids, n_traps == 0", 0);
    try_first_use ("first use = pixman_composite_glyphs, 0x0 mask", 1);
    printf (writes ? "FAIL\n" : "PASS\n");
    return writes ? 1 : 0;
}
