/* F33: pixman_glyph_cache_insert copies an indexed-format glyph into an image without a palette: SIGSEGV in store_scanline_g8 */
#include <stdio.h>
#include <string.h>
#include <stdlib.h>
#include <signal.h>
#include <unistd.h>
#include <pixman.h>
static void segv(int s){ printf("SIGSEGV\nFAIL\n"); _exit(1); }
int main(void){
    setvbuf(stdout,NULL,_IONBF,0); signal(SIGSEGV,segv); alarm(20);
    static pixman_indexed_t pal; for(int i=0;i<256;i++) pal.rgba[i]=0xff000000|(i*0x010101); 
    uint8_t g[8*8]; memset(g,0x80,sizeof g);
    pixman_image_t *gi=pixman_image_create_bits(PIXMAN_g8,8,8,(uint32_t*)g,8);
    pixman_image_set_indexed(gi,&pal);
    pixman_glyph_cache_t *c=pixman_glyph_cache_create();
    pixman_glyph_cache_freeze(c);
    const void *h=pixman_glyph_cache_insert(c,(void*)1,(void*)2,0,0,gi);
    printf("insert -> %p\n",h);
    if(h){
        uint32_t d[16*16]; memset(d,0,sizeof d);
        pixman_image_t *dst=pixman_image_create_bits(PIXMAN_a8r8g8b8,16,16,d,64);
        pixman_color_t col={0xffff,0xffff,0xffff,0xffff}; pixman_image_t *s=pixman_image_create_solid_fill(&col);
        pixman_glyph_t gl={4,4,h};
        pixman_composite_glyphs_no_mask(PIXMAN_OP_OVER,s,dst,0,0,0,0,c,1,&gl);
        printf("drawn pixel %08x\n",d[5*16+5]);
    }
    pixman_glyph_cache_thaw(c);
    puts("PASS"); return 0;
}
