#include <stdio.h>
#include <stdlib.h>
#include <string.h>
#include <signal.h>
#include <unistd.h>
#include "pixman.h"
/* F25: pixman_sample_floor_y near the bottom of the coordinate range must saturate, not wrap */
static void on_segv (int s) { const char m[] = "FAIL: SIGSEGV while rasterising a trapezoid at the bottom of the coordinate range\n"; write (1, m, sizeof m - 1); _exit (1); }
int main(void)
{
    pixman_fixed_t y = (pixman_fixed_t) 0x80000001, r;
    int bad = 0;
    signal (SIGSEGV, on_segv); alarm (20);
    r = pixman_sample_floor_y (y, 8);
    printf ("pixman_sample_floor_y (0x%08x, 8) = 0x%08x\n", (unsigned) y, (unsigned) r);
    if (r > y) { printf ("the sample row below-or-at y is ABOVE y (wrapped)\n"); bad++; }
    {
        uint8_t *bits = calloc (16 * 16 + 64, 1);
        pixman_image_t *img = pixman_image_create_bits (PIXMAN_a8, 16, 16, (uint32_t *) bits, 16);
        pixman_trapezoid_t t;
        t.top = (pixman_fixed_t) 0x80000000; t.bottom = (pixman_fixed_t) 0x80000001;
        t.left.p1.x = 0; t.left.p1.y = t.top; t.left.p2.x = 0; t.left.p2.y = t.bottom;
        t.right.p1.x = pixman_int_to_fixed (8); t.right.p1.y = t.top; t.right.p2.x = pixman_int_to_fixed (8); t.right.p2.y = t.bottom;
        pixman_rasterize_trapezoid (img, &t, 0, 0);
        { int i, n = 0; for (i = 0; i < 256; i++) n += bits[i] != 0; if (n) { printf ("a trapezoid 32768 rows above the image painted %d pixels\n", n); bad++; } }
    }
    printf ("%s\n", bad ? "FAIL" : "PASS");
    return bad != 0;
}
