/* F13: YUV fetchers bypass the read accessor. A yuy2 source whose pixels are only reachable through read_func
 * (bits is a cookie, here an offset into a table) must be read through the callback like every other format. */
#include <stdio.h>
#include <stdlib.h>
#include <string.h>
#include "pixman.h"
static int n_reads;
static uint8_t backing[64];
static uint32_t rd (const void *src, int size) { n_reads++; const uint8_t *p = src; if (size==1) return *p; if (size==2) return *(uint16_t*)p; return *(uint32_t*)p; }
static void wr (void *dst, uint32_t v, int size) { if (size==1) *(uint8_t*)dst=v; else if (size==2) *(uint16_t*)dst=v; else *(uint32_t*)dst=v; }
int main (int argc, char **argv)
{
    pixman_format_code_t fmt = argc > 1 && !strcmp (argv[1], "a8r8g8b8") ? PIXMAN_a8r8g8b8 : PIXMAN_yuy2;
    memset (backing, 0x80, sizeof backing);
    pixman_image_t *s = pixman_image_create_bits (fmt, 4, 2, (uint32_t *)backing, 16);
    pixman_image_t *d = pixman_image_create_bits (PIXMAN_a8r8g8b8, 4, 2, NULL, 0);
    pixman_image_set_accessors (s, rd, wr);
    pixman_image_composite32 (PIXMAN_OP_SRC, s, NULL, d, 0, 0, 0, 0, 0, 0, 4, 2);
    printf ("format %s: read_func called %d times while fetching 8 pixels (0 = the callback was bypassed)\n", fmt == PIXMAN_yuy2 ? "yuy2" : "a8r8g8b8", n_reads);
    return 0;
}
