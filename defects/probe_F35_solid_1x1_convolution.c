/* F35: a 1x1 image with a repeat is presented as a solid colour whatever its filter.  Under a convolution filter whose kernel does not
 * sum to 1 (an edge-detection kernel sums to 0) every sample of the repeated image is pixel * sum (kernel), not the pixel. */
#include <stdio.h>
#include <string.h>
#include <pixman.h>
static uint32_t run(int w){          /* w x 1 source filled with one colour: w = 1 is classified as solid, w = 2 is not */
    uint32_t s[2]={0xff808080,0xff808080}, d[4*4]; memset(d,0,sizeof d);
    pixman_image_t *src=pixman_image_create_bits(PIXMAN_a8r8g8b8,w,1,s,8);
    pixman_image_t *dst=pixman_image_create_bits(PIXMAN_a8r8g8b8,4,4,d,16);
    pixman_fixed_t k[2+9]={pixman_int_to_fixed(3),pixman_int_to_fixed(3)};
    for(int i=0;i<9;i++) k[2+i]=pixman_int_to_fixed(i==4?8:-1);      /* Laplacian: sums to 0 */
    pixman_image_set_repeat(src,PIXMAN_REPEAT_NORMAL);
    pixman_image_set_filter(src,PIXMAN_FILTER_CONVOLUTION,k,11);
    pixman_image_composite32(PIXMAN_OP_SRC,src,NULL,dst,0,0,0,0,0,0,4,4);
    uint32_t r=d[5]; pixman_image_unref(src); pixman_image_unref(dst); return r;
}
int main(void){
    uint32_t a=run(1), b=run(2);
    printf("constant image, Laplacian kernel: 1x1 repeating source gives %08x, the same picture as a 2x1 repeating source gives %08x\n",a,b);
    int bad=a!=b; puts(bad?"FAIL":"PASS"); return bad;
}
