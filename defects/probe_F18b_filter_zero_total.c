/* F18b: a phase whose samples all evaluate to 0 (here IMPULSE reconstruction, LANCZOS3 sampling, scale 0.25, 1 subsample bit) makes
 * create_1d_filter compute 65536.0 / 0: the phase is filled with NaN-derived values and does not sum to 65536.
 * build: cc -I/repo/pixman -I/repo/_build/pixman probe.c -L/repo/_build/pixman -lpixman-1 -lm */
#include <stdio.h>
#include <stdlib.h>
#include <pixman.h>
int main (void)
{
    int n, i, k, bad = 0;
    pixman_fixed_t *p = pixman_filter_create_separable_convolution (&n, pixman_double_to_fixed (0.25), pixman_double_to_fixed (0.25),
								     PIXMAN_KERNEL_IMPULSE, PIXMAN_KERNEL_IMPULSE,
								     PIXMAN_KERNEL_LANCZOS3, PIXMAN_KERNEL_LANCZOS3, 1, 1);
    int w = p[0] >> 16, h = p[1] >> 16, bx = p[2] >> 16, by = p[3] >> 16;
    printf ("n=%d w=%d h=%d bx=%d by=%d\n", n, w, h, bx, by);
    for (i = 0; i < (1 << bx); i++)
    {
	long long s = 0;
	for (k = 0; k < w; k++) s += p[4 + i * w + k];
	printf ("x phase %d sums to %lld\n", i, s);
	if (s != 65536) bad++;
    }
    printf (bad ? "FAIL: %d phase(s) do not sum to 65536\n" : "PASS\n", bad);
    free (p);
    return bad != 0;
}
