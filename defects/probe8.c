#include <stdio.h>
#include <stdlib.h>
#include <string.h>
#include "pixman.h"
#define F(x) pixman_int_to_fixed(x)
int main(){
  uint32_t *buf = calloc(16*4*300,4); uint32_t *img = buf + 16*4*100;   /* 64x64 a8, stride 64 bytes = 16 words */
  pixman_image_t *d = pixman_image_create_bits(PIXMAN_a8, 64, 64, img, 64);
  pixman_edge_t l, r;
  pixman_fixed_t t = F(-10), b = F(70);
  t = pixman_sample_ceil_y(t, 8); b = pixman_sample_floor_y(b, 8);
  pixman_edge_init(&l, 8, t, F(4), F(-10), F(4), F(70));
  pixman_edge_init(&r, 8, t, F(20), F(-10), F(20), F(70));
  pixman_rasterize_edges(d, &l, &r, t, b);
  int above=0, below=0; long off=img-buf; for(long i=0;i<off;i++) if(buf[i]) above++; for(long i=off+16*64;i<16*4*300;i++) if(buf[i]) below++;
  printf("F11: words written above=%d below=%d\n", above, below);
}
