/* F27: pixman_composite_trapezoids' direct route (ADD, opaque source, matching format, no clip) rasterises straight into the
 * destination's own storage although the destination's alpha channel lives in its alpha map; the mask route composites through the
 * alpha map.  Property C12: both routes give the same image. */
#include <stdio.h>
#include <string.h>
#include <pixman.h>
static void run(int direct, uint8_t *d, uint8_t *a){
    memset(d,0,16*16); memset(a,0,16*16);
    pixman_image_t *dst=pixman_image_create_bits(PIXMAN_a8,16,16,(uint32_t*)d,16);
    pixman_image_t *am=pixman_image_create_bits(PIXMAN_a8,16,16,(uint32_t*)a,16);
    pixman_image_set_alpha_map(dst,am,0,0);
    pixman_color_t c={0xffff,0xffff,0xffff,0xffff};
    pixman_image_t *s=pixman_image_create_solid_fill(&c);
    pixman_trapezoid_t t; t.top=pixman_int_to_fixed(2); t.bottom=pixman_int_to_fixed(10);
    t.left.p1.x=pixman_int_to_fixed(2); t.left.p1.y=t.top; t.left.p2.x=pixman_int_to_fixed(2); t.left.p2.y=t.bottom;
    t.right.p1.x=pixman_int_to_fixed(12); t.right.p1.y=t.top; t.right.p2.x=pixman_int_to_fixed(12); t.right.p2.y=t.bottom;
    if(direct) pixman_composite_trapezoids(PIXMAN_OP_ADD,s,dst,PIXMAN_a8,0,0,0,0,1,&t);
    else { /* the documented equivalent: rasterise into a temporary mask, composite it */
        static uint8_t m[16*16]; memset(m,0,sizeof m);
        pixman_image_t *mask=pixman_image_create_bits(PIXMAN_a8,16,16,(uint32_t*)m,16);
        pixman_rasterize_trapezoid(mask,&t,0,0);
        pixman_image_composite32(PIXMAN_OP_ADD,s,mask,dst,0,0,0,0,0,0,16,16);
        pixman_image_unref(mask);
    }
    pixman_image_unref(dst); pixman_image_unref(am); pixman_image_unref(s);
}
int main(void){
    static uint8_t d1[256],a1[256],d2[256],a2[256];
    run(1,d1,a1); run(0,d2,a2);
    int bad=memcmp(d1,d2,256)||memcmp(a1,a2,256);
    printf("direct: dst[5,5]=%02x alpha map[5,5]=%02x ; via mask: dst=%02x alpha map=%02x\n",d1[5*16+5],a1[5*16+5],d2[5*16+5],a2[5*16+5]);
    puts(bad?"FAIL":"PASS"); return bad?1:0;
}
