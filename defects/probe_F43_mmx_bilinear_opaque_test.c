/* F43: scaled_bilinear_scanline_mmx_8888_8_8888_OVER stores the interpolated source pixel as it is when "m == 0xff && is_opaque (pix1)".
 * pix1 is a packed, duplicated pixel (B G R A B G R A); is_opaque() looks at byte 6, which is alpha only in an unpacked pixel - here it is
 * the red byte.  A translucent pixel with red == 0xff is stored instead of blended; the SSE2 and general paths blend it. */
#include <stdio.h>
#include <stdlib.h>
#include <string.h>
#include <unistd.h>
#include <pixman.h>
static void run(uint32_t *out){
    static uint32_t sb[8*8]; static uint8_t mb[8]; for(int i=0;i<64;i++) sb[i]=0x40ff2010; for(int i=0;i<8;i++){ out[i]=0xff00ff00; mb[i]=0xff; }
    pixman_image_t *src=pixman_image_create_bits(PIXMAN_a8r8g8b8,8,8,sb,32);
    pixman_image_t *mask=pixman_image_create_bits(PIXMAN_a8,8,1,(uint32_t*)mb,8);
    pixman_image_t *dst=pixman_image_create_bits(PIXMAN_a8r8g8b8,8,1,out,32);
    pixman_transform_t t; pixman_transform_init_scale(&t,pixman_double_to_fixed(0.75),pixman_double_to_fixed(0.75));
    pixman_image_set_transform(src,&t); pixman_image_set_filter(src,PIXMAN_FILTER_BILINEAR,NULL,0); pixman_image_set_repeat(src,PIXMAN_REPEAT_PAD);
    pixman_image_composite32(PIXMAN_OP_OVER,src,mask,dst,0,0,0,0,0,0,8,1);
}
int main(int argc,char**argv){
    uint32_t d[8]; run(d);
    if(argc>1){ for(int i=0;i<8;i++) printf("%08x ",d[i]); printf("\n"); return 0; }
    setenv("PIXMAN_DISABLE","sse2",1);
    char cmd[512]; snprintf(cmd,sizeof cmd,"%s child | tail -1",argv[0]);
    FILE *p=popen(cmd,"r"); uint32_t e[8]; int n=0; while(n<8&&fscanf(p,"%x",&e[n])==1) n++; pclose(p);
    int bad=(n!=8); for(int i=0;i<8&&!bad;i++) if(d[i]!=e[i]) bad=1;
    printf("default %08x, PIXMAN_DISABLE=sse2 (MMX) %08x\n",d[2],n==8?e[2]:0); puts(bad?"FAIL":"PASS"); return bad;
}
