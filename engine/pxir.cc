// pxir — E1 of /verif/DESIGN.md: dump one LLVM-14 IR module (a pixman translation unit compiled
// by clang -O0 -g + mem2reg, or an -O2 shim) as JSON facts.  Contains no rule.
//
//   pxir <module.ll|.bc> <out.json> [--loops]
//
// Output (see pxv/facts.py for the reader):
//   unit-level : files, enums, structs (DI layouts), lltypes (LLVM struct -> offsets + DI field
//                names), globals with decoded initialisers, ctors, functions
//   function   : name, linkage, visibility, file, line, DI return type, params (name, DI type),
//                blocks -> instructions (id, opcode, type, operands, line, extras), successors
//   --loops    : per natural loop (LoopInfo + ScalarEvolution): header phis with constant steps,
//                exit comparisons, memory accesses through loop-carried pointers
#include "llvm/IR/LLVMContext.h"
#include "llvm/IR/Module.h"
#include "llvm/IR/Constants.h"
#include "llvm/IR/CFG.h"
#include "llvm/IR/DataLayout.h"
#include "llvm/IR/Dominators.h"
#include "llvm/IRReader/IRReader.h"
#include "llvm/Support/SourceMgr.h"
#include "llvm/IR/Instructions.h"
#include "llvm/IR/IntrinsicInst.h"
#include "llvm/IR/InlineAsm.h"
#include "llvm/IR/Operator.h"
#include "llvm/IR/DebugInfo.h"
#include "llvm/IR/DebugInfoMetadata.h"
#include "llvm/Analysis/LoopInfo.h"
#include "llvm/Analysis/ScalarEvolution.h"
#include "llvm/Analysis/ScalarEvolutionExpressions.h"
#include "llvm/Passes/PassBuilder.h"
#include "llvm/Support/raw_ostream.h"
#include "llvm/Support/FileSystem.h"
#include <map>
#include <set>
#include <string>
#include <vector>
using namespace llvm;

static std::string jstr(StringRef s) {
  std::string o = "\"";
  for (unsigned char c : s) {
    if (c == '"' || c == '\\') { o += '\\'; o += c; }
    else if (c < 0x20 || c >= 0x7f) { char b[8]; snprintf(b, sizeof b, "\\u%04x", c); o += b; }
    else o += c;
  }
  return o + "\"";
}
static std::string tystr(Type *T) {
  std::string s; raw_string_ostream os(s);
  if (auto *ST = dyn_cast<StructType>(T)) { if (ST->hasName()) { os << "%" << ST->getName(); return os.str(); } }
  if (auto *PT = dyn_cast<PointerType>(T)) { return tystr(PT->getPointerElementType()) + "*"; }
  if (auto *AT = dyn_cast<ArrayType>(T)) { os << "[" << AT->getNumElements() << " x " << tystr(AT->getElementType()) << "]"; return os.str(); }
  if (auto *FT = dyn_cast<FunctionType>(T)) {
    os << tystr(FT->getReturnType()) << " (";
    for (unsigned i = 0; i < FT->getNumParams(); i++) { if (i) os << ", "; os << tystr(FT->getParamType(i)); }
    if (FT->isVarArg()) os << ", ...";
    os << ")"; return os.str();
  }
  T->print(os); return os.str();
}
static std::string stripSuffix(StringRef n) {
  size_t p = n.rfind('.');
  if (p != StringRef::npos && p + 1 < n.size()) {
    bool dig = true; for (size_t i = p + 1; i < n.size(); i++) if (!isdigit(n[i])) dig = false;
    if (dig) n = n.substr(0, p);
  }
  return n.str();
}
static std::string llStructBase(StructType *ST) {
  if (!ST->hasName()) return "";
  StringRef n = ST->getName(); n.consume_front("struct."); n.consume_front("union.");
  return stripSuffix(n);
}

// ---------------------------------------------------------------- debug-info helpers
static DIType *stripQual(DIType *T) {
  while (T) {
    auto *D = dyn_cast<DIDerivedType>(T); if (!D) break;
    unsigned tag = D->getTag();
    if (tag == dwarf::DW_TAG_typedef || tag == dwarf::DW_TAG_const_type || tag == dwarf::DW_TAG_volatile_type || tag == dwarf::DW_TAG_restrict_type) T = D->getBaseType(); else break;
  }
  return T;
}
static std::string diName(DIType *T, int depth = 0) {
  if (!T) return "void";
  if (depth > 8) return "?";
  if (auto *D = dyn_cast<DIDerivedType>(T)) {
    unsigned tag = D->getTag();
    if (tag == dwarf::DW_TAG_typedef) return D->getName().str();
    if (tag == dwarf::DW_TAG_pointer_type) return diName(D->getBaseType(), depth + 1) + "*";
    if (tag == dwarf::DW_TAG_const_type) return "const " + diName(D->getBaseType(), depth + 1);
    if (tag == dwarf::DW_TAG_volatile_type) return "volatile " + diName(D->getBaseType(), depth + 1);
    return diName(D->getBaseType(), depth + 1);
  }
  if (auto *C = dyn_cast<DICompositeType>(T)) {
    if (C->getTag() == dwarf::DW_TAG_array_type) {
      std::string s = diName(C->getBaseType(), depth + 1);
      for (auto *E : C->getElements()) if (auto *SR = dyn_cast<DISubrange>(E)) {
        auto cnt = SR->getCount(); if (auto *CI = cnt.dyn_cast<ConstantInt *>()) s += "[" + std::to_string(CI->getSExtValue()) + "]"; else s += "[]"; }
      return s;
    }
    if (!C->getName().empty()) return C->getName().str();
    return "anon";
  }
  if (isa<DISubroutineType>(T)) return "fn";
  return T->getName().str();
}
// all typedef names on the way down (outermost first)
static std::string diTypedefChain(DIType *T) {
  std::string s;
  int n = 0;
  while (T && n++ < 12) {
    auto *D = dyn_cast<DIDerivedType>(T); if (!D) break;
    if (D->getTag() == dwarf::DW_TAG_typedef) { if (!s.empty()) s += ">"; s += D->getName().str(); }
    if (D->getTag() == dwarf::DW_TAG_pointer_type) break;
    T = D->getBaseType();
  }
  return s;
}
static std::map<std::string, DICompositeType *> diStructs;   // by struct tag or typedef name
static std::map<std::string, DICompositeType *> diEnums;
static void collectDI(Module &M) {
  DebugInfoFinder F; F.processModule(M);
  for (auto *T : F.types()) {
    if (auto *CT = dyn_cast<DICompositeType>(T)) {
      unsigned tag = CT->getTag();
      if ((tag == dwarf::DW_TAG_structure_type || tag == dwarf::DW_TAG_union_type) && !CT->getName().empty() && !CT->isForwardDecl())
        diStructs[CT->getName().str()] = CT;
      if (tag == dwarf::DW_TAG_enumeration_type && !CT->getName().empty()) diEnums[CT->getName().str()] = CT;
    }
  }
  for (auto *T : F.types()) {
    if (auto *D = dyn_cast<DIDerivedType>(T)) if (D->getTag() == dwarf::DW_TAG_typedef) {
      DIType *B = stripQual(D->getBaseType());
      if (auto *CT = dyn_cast_or_null<DICompositeType>(B)) {
        unsigned tag = CT->getTag();
        if ((tag == dwarf::DW_TAG_structure_type || tag == dwarf::DW_TAG_union_type) && !CT->isForwardDecl() && !diStructs.count(D->getName().str()))
          diStructs[D->getName().str()] = CT;
        if (tag == dwarf::DW_TAG_enumeration_type && !diEnums.count(D->getName().str())) diEnums[D->getName().str()] = CT;
      }
    }
  }
}
static std::string compName(DICompositeType *CT) { return CT->getName().empty() ? std::string("anon") : CT->getName().str(); }
// member of CT at byte offset `off`; for unions prefer a member whose composite name == hint
static DIDerivedType *memberAt(DICompositeType *CT, uint64_t off, StringRef hint) {
  DIDerivedType *first = nullptr;
  for (auto *El : CT->getElements()) if (auto *Mb = dyn_cast<DIDerivedType>(El)) if (Mb->getTag() == dwarf::DW_TAG_member) {
    if (Mb->getOffsetInBits() / 8 != off) continue;
    if (Mb->isBitField() && Mb->getOffsetInBits() % 8) continue;
    if (!first) first = Mb;
    if (!hint.empty()) { DIType *B = stripQual(Mb->getBaseType()); if (auto *C = dyn_cast_or_null<DICompositeType>(B)) if (C->getName() == hint) return Mb; }
  }
  return first;
}

// ---------------------------------------------------------------- value encoding
static std::map<const Value *, int> vid;       // instruction -> id (per function)
static std::map<const BasicBlock *, int> bid;
static const DataLayout *DLp;

static std::string gepPath(Type *SrcTy, User::op_iterator ib, User::op_iterator ie, std::string (*enc)(Value *), Value *Base = nullptr);
static std::string encC(Constant *C, int depth);
static std::string enc(Value *V) {
  if (auto *CI = dyn_cast<ConstantInt>(V)) {
    unsigned w = CI->getBitWidth();
    if (w <= 64) { int64_t v = CI->getSExtValue(); std::string s = "[\"c\","; if (v > (1LL << 52) || v < -(1LL << 52)) s += "\"" + std::to_string(v) + "\""; else s += std::to_string(v); return s + "," + std::to_string(w) + "]"; }
    SmallString<40> str; CI->getValue().toStringSigned(str); return "[\"c\",\"" + std::string(str.c_str()) + "\"," + std::to_string(w) + "]";
  }
  if (auto *I = dyn_cast<Instruction>(V)) { auto it = vid.find(I); return "[\"v\"," + std::to_string(it == vid.end() ? -1 : it->second) + "]"; }
  if (auto *A = dyn_cast<Argument>(V)) return "[\"a\"," + std::to_string(A->getArgNo()) + "]";
  if (auto *F = dyn_cast<Function>(V)) return "[\"f\"," + jstr(F->getName()) + "]";
  if (auto *G = dyn_cast<GlobalVariable>(V)) return "[\"g\"," + jstr(G->getName()) + "]";
  if (isa<ConstantPointerNull>(V)) return "[\"n\"]";
  if (isa<UndefValue>(V)) return "[\"u\"]";
  if (auto *B = dyn_cast<BasicBlock>(V)) return "[\"b\"," + std::to_string(bid[B]) + "]";
  if (auto *C = dyn_cast<Constant>(V)) return encC(C, 0);
  if (isa<MetadataAsValue>(V)) return "[\"md\"]";
  if (isa<InlineAsm>(V)) return "[\"asm\"]";
  return "[\"?\"]";
}
static std::string encC(Constant *C, int depth) {
  if (depth > 6) return "[\"?\"]";
  if (auto *FP = dyn_cast<ConstantFP>(C)) {
    SmallString<40> s; FP->getValueAPF().toString(s, 0, 0);
    APInt bits = FP->getValueAPF().bitcastToAPInt();
    SmallString<40> hs; bits.toStringUnsigned(hs, 16);
    return "[\"fc\"," + jstr(s) + ",\"" + std::string(hs.c_str()) + "\"]";
  }
  if (auto *CE = dyn_cast<ConstantExpr>(C)) {
    std::string s = "[\"ce\"," + jstr(CE->getOpcodeName()) + ",[";
    for (unsigned i = 0; i < CE->getNumOperands(); i++) { if (i) s += ","; s += enc(CE->getOperand(i)); }
    s += "]";
    if (auto *G = dyn_cast<GEPOperator>(CE)) s += "," + gepPath(G->getSourceElementType(), G->idx_begin(), G->idx_end(), enc, G->getPointerOperand());
    return s + "]";
  }
  if (isa<ConstantAggregateZero>(C)) return "[\"z\"," + jstr(tystr(C->getType())) + "]";
  if (auto *CDS = dyn_cast<ConstantDataSequential>(C)) {
    std::string s = "[\"agg\",[";
    for (unsigned i = 0; i < CDS->getNumElements(); i++) { if (i) s += ","; s += encC(CDS->getElementAsConstant(i), depth + 1); }
    return s + "]]";
  }
  if (auto *CA = dyn_cast<ConstantAggregate>(C)) {
    std::string s = "[\"agg\",[";
    for (unsigned i = 0; i < CA->getNumOperands(); i++) { if (i) s += ","; s += enc(CA->getOperand(i)); }
    return s + "]]";
  }
  if (isa<ConstantInt>(C) || isa<ConstantPointerNull>(C) || isa<UndefValue>(C) || isa<GlobalValue>(C)) return enc(C);
  return "[\"?\"]";
}
// GEP path: list of steps.  ["p",idx,elemsize] first (pointer) index; ["f",struct,field,offset,ditype] struct member;
// ["x",idx,elemsize] array/vector element.
static DICompositeType *diNext(DICompositeType *cur, StructType *ST, unsigned k) {
  if (!cur) { auto f = diStructs.find(llStructBase(ST)); cur = f == diStructs.end() ? nullptr : f->second; }
  if (!cur) return nullptr;
  uint64_t off = DLp->getStructLayout(ST)->getElementOffset(k);
  std::string hint; Type *E2 = ST->getElementType(k); while (auto *AT = dyn_cast<ArrayType>(E2)) E2 = AT->getElementType();
  if (auto *EST = dyn_cast<StructType>(E2)) hint = llStructBase(EST);
  auto *Mb = memberAt(cur, off, hint); if (!Mb) return nullptr;
  DIType *B = stripQual(Mb->getBaseType());
  while (auto *AC = dyn_cast_or_null<DICompositeType>(B)) { if (AC->getTag() == dwarf::DW_TAG_array_type) B = stripQual(AC->getBaseType()); else break; }
  auto *next = dyn_cast_or_null<DICompositeType>(B);
  if (next && next->isForwardDecl()) { auto f = diStructs.find(next->getName().str()); next = f == diStructs.end() ? nullptr : f->second; }
  return next;
}
// DI composite describing the pointee of V when V is (a chain of) GEPs into nested anonymous aggregates
static DICompositeType *diOfPointer(Value *V, int depth = 0) {
  if (!V || depth > 8) return nullptr;
  auto *G = dyn_cast<GEPOperator>(V); if (!G) return nullptr;
  DICompositeType *cur = diOfPointer(G->getPointerOperand(), depth + 1);
  Type *T = G->getSourceElementType(); bool first = true;
  for (auto it = G->idx_begin(); it != G->idx_end(); ++it) {
    if (first) { first = false; continue; }
    if (auto *ST = dyn_cast<StructType>(T)) { auto *CI = dyn_cast<ConstantInt>(*it); if (!CI) return nullptr; unsigned k = CI->getZExtValue(); cur = diNext(cur, ST, k); T = ST->getElementType(k); }
    else if (auto *AT = dyn_cast<ArrayType>(T)) T = AT->getElementType();
    else if (auto *VT = dyn_cast<VectorType>(T)) T = VT->getElementType();
    else return nullptr;
  }
  return cur;
}
static std::string gepPath(Type *SrcTy, User::op_iterator ib, User::op_iterator ie, std::string (*encf)(Value *), Value *Base) {
  std::string s = "[";
  Type *T = SrcTy; bool first = true; DICompositeType *cur = diOfPointer(Base); bool curValid = cur != nullptr;
  for (auto it = ib; it != ie; ++it) {
    Value *I = *it;
    if (!first) s += ",";
    if (first) {
      first = false;
      s += "[\"p\"," + encf(I) + "," + std::to_string(T->isSized() ? DLp->getTypeAllocSize(T).getFixedSize() : 0) + "]";
      continue;
    }
    if (auto *ST = dyn_cast<StructType>(T)) {
      unsigned k = cast<ConstantInt>(I)->getZExtValue();
      uint64_t off = DLp->getStructLayout(ST)->getElementOffset(k);
      std::string sname = llStructBase(ST);
      if (!curValid) { auto f = diStructs.find(sname); cur = f == diStructs.end() ? nullptr : f->second; }
      std::string fname = "#" + std::to_string(k), ftype = "";
      Type *ET = ST->getElementType(k);
      DICompositeType *next = nullptr;
      if (cur) {
        std::string hint; Type *E2 = ET; while (auto *AT = dyn_cast<ArrayType>(E2)) E2 = AT->getElementType();
        if (auto *EST = dyn_cast<StructType>(E2)) hint = llStructBase(EST);
        if (auto *Mb = memberAt(cur, off, hint)) {
          fname = Mb->getName().str(); ftype = diName(Mb->getBaseType());
          DIType *B = stripQual(Mb->getBaseType());
          while (auto *AC = dyn_cast_or_null<DICompositeType>(B)) { if (AC->getTag() == dwarf::DW_TAG_array_type) B = stripQual(AC->getBaseType()); else break; }
          next = dyn_cast_or_null<DICompositeType>(B);
          if (next && next->isForwardDecl()) { auto f = diStructs.find(next->getName().str()); next = f == diStructs.end() ? nullptr : f->second; }
        }
        sname = sname.empty() || sname.rfind("anon", 0) == 0 ? compName(cur) : sname;
      }
      s += "[\"f\"," + jstr(sname) + "," + jstr(fname) + "," + std::to_string(off) + "," + jstr(ftype) + "]";
      cur = next; curValid = true; T = ET;
    } else if (auto *AT = dyn_cast<ArrayType>(T)) {
      T = AT->getElementType();
      s += "[\"x\"," + encf(I) + "," + std::to_string(DLp->getTypeAllocSize(T).getFixedSize()) + "]";
    } else if (auto *VT = dyn_cast<VectorType>(T)) {
      T = VT->getElementType();
      s += "[\"x\"," + encf(I) + "," + std::to_string(DLp->getTypeAllocSize(T).getFixedSize()) + "]";
    } else s += "[\"?\"]";
  }
  return s + "]";
}

// ---------------------------------------------------------------- globals
static std::string encInit(Constant *C, int depth = 0) {
  if (depth > 12) return "null";
  if (auto *CI = dyn_cast<ConstantInt>(C)) {
    if (CI->getBitWidth() <= 64) { int64_t v = CI->getSExtValue(); if (v > (1LL << 52) || v < -(1LL << 52)) return "\"" + std::to_string(v) + "\""; return std::to_string(v); }
    SmallString<40> str; CI->getValue().toStringSigned(str); return "\"" + std::string(str.c_str()) + "\"";
  }
  if (auto *FP = dyn_cast<ConstantFP>(C)) { APInt bits = FP->getValueAPF().bitcastToAPInt(); SmallString<40> hs; bits.toStringUnsigned(hs, 16); SmallString<40> s; FP->getValueAPF().toString(s, 0, 0); return "{\"fp\":" + jstr(s) + ",\"bits\":\"" + std::string(hs.c_str()) + "\"}"; }
  if (isa<ConstantPointerNull>(C)) return "null";
  if (isa<UndefValue>(C)) return "{\"undef\":1}";
  if (auto *F = dyn_cast<Function>(C)) return "{\"f\":" + jstr(F->getName()) + "}";
  if (auto *G = dyn_cast<GlobalVariable>(C)) return "{\"g\":" + jstr(G->getName()) + "}";
  if (auto *CE = dyn_cast<ConstantExpr>(C)) {
    if (CE->isCast()) return encInit(CE->getOperand(0), depth + 1);
    if (auto *G = dyn_cast<GEPOperator>(CE)) {
      APInt off(64, 0); std::string b = encInit(cast<Constant>(G->getPointerOperand()), depth + 1);
      if (G->accumulateConstantOffset(*DLp, off)) return "{\"gep\":" + b + ",\"off\":" + std::to_string(off.getSExtValue()) + "}";
      return "{\"gep\":" + b + "}";
    }
    return "{\"ce\":" + jstr(CE->getOpcodeName()) + "}";
  }
  Type *T = C->getType();
  if (isa<ConstantAggregateZero>(C)) {
    if (auto *ST = dyn_cast<StructType>(T)) { std::string s = "["; for (unsigned i = 0; i < ST->getNumElements(); i++) { if (i) s += ","; s += encInit(Constant::getNullValue(ST->getElementType(i)), depth + 1); } return s + "]"; }
    if (auto *AT = dyn_cast<ArrayType>(T)) { std::string e = encInit(Constant::getNullValue(AT->getElementType()), depth + 1); std::string s = "["; for (uint64_t i = 0; i < AT->getNumElements(); i++) { if (i) s += ","; s += e; } return s + "]"; }
    if (auto *VT = dyn_cast<FixedVectorType>(T)) { std::string e = encInit(Constant::getNullValue(VT->getElementType()), depth + 1); std::string s = "["; for (unsigned i = 0; i < VT->getNumElements(); i++) { if (i) s += ","; s += e; } return s + "]"; }
    return "0";
  }
  if (auto *CDS = dyn_cast<ConstantDataSequential>(C)) {
    if (CDS->isCString()) { bool pr = true; for (unsigned char c : CDS->getAsCString()) if (c < 0x20 && c != '\n' && c != '\t') pr = false; if (pr && CDS->getNumElements() > 1) return jstr(CDS->getAsString()); }
    std::string s = "["; for (unsigned i = 0; i < CDS->getNumElements(); i++) { if (i) s += ","; s += encInit(CDS->getElementAsConstant(i), depth + 1); } return s + "]";
  }
  if (auto *CA = dyn_cast<ConstantAggregate>(C)) {
    std::string s = "["; for (unsigned i = 0; i < CA->getNumOperands(); i++) { if (i) s += ","; s += encInit(cast<Constant>(CA->getOperand(i)), depth + 1); } return s + "]";
  }
  return "{\"unk\":1}";
}

// ---------------------------------------------------------------- loops (T-IND support)
static std::string scevStr(const SCEV *S) { std::string s; raw_string_ostream os(s); S->print(os); return os.str(); }
static void dumpLoops(Function &F, FunctionAnalysisManager &FAM, raw_ostream &O) {
  auto &LI = FAM.getResult<LoopAnalysis>(F); auto &SE = FAM.getResult<ScalarEvolutionAnalysis>(F);
  bool firstL = true;
  O << "\"loops\":[";
  for (Loop *L : LI.getLoopsInPreorder()) {
    if (!firstL) O << ","; firstL = false;
    BasicBlock *H = L->getHeader();
    O << "{\"header\":" << bid[H] << ",\"depth\":" << L->getLoopDepth() << ",\"parent\":" << (L->getParentLoop() ? bid[L->getParentLoop()->getHeader()] : -1) << ",\"blocks\":[";
    bool fb = true; for (auto *B : L->blocks()) { if (!fb) O << ","; fb = false; O << bid[B]; }
    O << "],\"phis\":[";
    bool fp = true;
    for (PHINode &P : H->phis()) {
      if (!fp) O << ","; fp = false;
      const SCEV *S = SE.isSCEVable(P.getType()) ? SE.getSCEV(&P) : nullptr;
      std::string step = "null", start = "null";
      if (S) if (auto *AR = dyn_cast<SCEVAddRecExpr>(S)) if (AR->getLoop() == L) {
        if (auto *SC = dyn_cast<SCEVConstant>(AR->getStepRecurrence(SE))) step = std::to_string(SC->getAPInt().getSExtValue()); else step = jstr(scevStr(AR->getStepRecurrence(SE)));
        start = jstr(scevStr(AR->getStart()));
      }
      uint64_t es = 0; if (P.getType()->isPointerTy()) { Type *ET = P.getType()->getPointerElementType(); if (ET->isSized()) es = DLp->getTypeAllocSize(ET).getFixedSize(); }
      O << "{\"v\":" << vid[&P] << ",\"ty\":" << jstr(tystr(P.getType())) << ",\"step\":" << step << ",\"start\":" << start << ",\"es\":" << es << "}";
    }
    O << "],\"exits\":[";
    SmallVector<BasicBlock *, 4> EB; L->getExitingBlocks(EB); bool fe = true;
    for (auto *B : EB) {
      if (!fe) O << ","; fe = false;
      O << "{\"block\":" << bid[B] << ",\"term\":" << vid[B->getTerminator()];
      if (auto *Br = dyn_cast<BranchInst>(B->getTerminator())) if (Br->isConditional()) {
        O << ",\"cond\":" << enc(Br->getCondition()) << ",\"exit_on\":" << (L->contains(Br->getSuccessor(0)) ? "false" : "true");
      }
      O << "}";
    }
    O << "],\"latches\":[";
    SmallVector<BasicBlock *, 4> LB; L->getLoopLatches(LB); bool fl = true; for (auto *B : LB) { if (!fl) O << ","; fl = false; O << bid[B]; }
    O << "],\"mem\":[";
    // accesses whose address is an affine function of this loop
    bool fm = true;
    for (auto *B : L->blocks()) { if (LI.getLoopFor(B) != L) continue; for (auto &I : *B) {
      Value *P = nullptr; uint64_t sz = 0; const char *kind = nullptr;
      if (auto *Ld = dyn_cast<LoadInst>(&I)) { P = Ld->getPointerOperand(); sz = DLp->getTypeStoreSize(Ld->getType()).getFixedSize(); kind = "load"; }
      else if (auto *St = dyn_cast<StoreInst>(&I)) { P = St->getPointerOperand(); sz = DLp->getTypeStoreSize(St->getValueOperand()->getType()).getFixedSize(); kind = "store"; }
      if (!P || !SE.isSCEVable(P->getType())) continue;
      const SCEV *S = SE.getSCEV(P);
      if (!fm) O << ","; fm = false;
      O << "{\"i\":" << vid[&I] << ",\"k\":\"" << kind << "\",\"sz\":" << sz << ",\"scev\":" << jstr(scevStr(S)) << "}";
    } }
    O << "]}";
  }
  O << "],";
}

// ---------------------------------------------------------------- main
int main(int argc, char **argv) {
  if (argc < 3) { errs() << "usage: pxir in.ll out.json [--loops]\n"; return 2; }
  bool wantLoops = false; for (int i = 3; i < argc; i++) if (std::string(argv[i]) == "--loops") wantLoops = true;
  LLVMContext C; SMDiagnostic E; auto M = parseIRFile(argv[1], E, C);
  if (!M) { E.print("pxir", errs()); return 2; }
  DLp = &M->getDataLayout();
  collectDI(*M);
  std::error_code EC; raw_fd_ostream O(argv[2], EC, sys::fs::OF_None);
  if (EC) { errs() << "cannot write " << argv[2] << "\n"; return 2; }
  PassBuilder PB; LoopAnalysisManager LAM; FunctionAnalysisManager FAM; CGSCCAnalysisManager CGAM; ModuleAnalysisManager MAM;
  if (wantLoops) { PB.registerModuleAnalyses(MAM); PB.registerCGSCCAnalyses(CGAM); PB.registerFunctionAnalyses(FAM); PB.registerLoopAnalyses(LAM); PB.crossRegisterProxies(LAM, FAM, CGAM, MAM); }

  O << "{\"module\":" << jstr(M->getSourceFileName()) << ",\n";
  // enums
  O << "\"enums\":{"; { bool f = true; for (auto &kv : diEnums) { if (!f) O << ","; f = false; O << jstr(kv.first) << ":{"; bool g = true; for (auto *El : kv.second->getElements()) if (auto *En = dyn_cast<DIEnumerator>(El)) { if (!g) O << ","; g = false; O << jstr(En->getName()) << ":" << En->getValue().getSExtValue(); } O << "}"; } } O << "},\n";
  // DI struct layouts
  O << "\"structs\":{"; { bool f = true; for (auto &kv : diStructs) { if (!f) O << ","; f = false; O << jstr(kv.first) << ":{\"tag\":" << jstr(kv.second->getName()) << ",\"union\":" << (kv.second->getTag() == dwarf::DW_TAG_union_type ? "true" : "false") << ",\"size\":" << kv.second->getSizeInBits() / 8 << ",\"fields\":["; bool g = true; for (auto *El : kv.second->getElements()) if (auto *Mb = dyn_cast<DIDerivedType>(El)) if (Mb->getTag() == dwarf::DW_TAG_member) { if (!g) O << ","; g = false; O << "[" << jstr(Mb->getName()) << "," << Mb->getOffsetInBits() / 8 << "," << Mb->getSizeInBits() / 8 << "," << jstr(diName(Mb->getBaseType())) << "]"; } O << "]}"; } } O << "},\n";
  // LLVM struct types -> field offsets + DI names
  O << "\"lltypes\":{"; { bool f = true; for (auto *ST : M->getIdentifiedStructTypes()) { if (ST->isOpaque()) continue; if (!f) O << ","; f = false; auto *SL = DLp->getStructLayout(ST); std::string base = llStructBase(ST); auto di = diStructs.find(base); O << jstr(ST->getName()) << ":{\"size\":" << SL->getSizeInBytes() << ",\"fields\":["; for (unsigned k = 0; k < ST->getNumElements(); k++) { if (k) O << ","; uint64_t off = SL->getElementOffset(k); std::string nm = "#" + std::to_string(k); if (di != diStructs.end()) if (auto *Mb = memberAt(di->second, off, "")) nm = Mb->getName().str(); O << "[" << off << "," << jstr(nm) << "," << jstr(tystr(ST->getElementType(k))) << "]"; } O << "]}"; } } O << "},\n";
  // globals
  std::map<const GlobalVariable *, DIGlobalVariable *> gdi;
  for (auto &G : M->globals()) { SmallVector<DIGlobalVariableExpression *, 1> GVs; G.getDebugInfo(GVs); if (!GVs.empty()) gdi[&G] = GVs[0]->getVariable(); }
  O << "\"globals\":[";
  { bool f = true; for (auto &G : M->globals()) {
      if (G.getName().startswith("llvm.")) continue;
      if (!f) O << ",\n"; f = false;
      O << "{\"name\":" << jstr(G.getName()) << ",\"const\":" << (G.isConstant() ? "true" : "false") << ",\"tls\":" << (G.isThreadLocal() ? "true" : "false")
        << ",\"internal\":" << (G.hasLocalLinkage() ? "true" : "false") << ",\"decl\":" << (G.isDeclaration() ? "true" : "false") << ",\"vis\":" << (int)G.getVisibility()
        << ",\"type\":" << jstr(tystr(G.getValueType()));
      auto di = gdi.find(&G);
      if (di != gdi.end()) { O << ",\"dname\":" << jstr(di->second->getName()) << ",\"dtype\":" << jstr(diName(di->second->getType())) << ",\"line\":" << di->second->getLine() << ",\"file\":" << jstr(di->second->getFilename());
        if (auto *Sc = dyn_cast_or_null<DISubprogram>(di->second->getScope())) O << ",\"scope\":" << jstr(Sc->getName()); }
      if (G.hasInitializer()) O << ",\"init\":" << encInit(G.getInitializer());
      O << "}";
  } }
  O << "],\n";
  // ctors
  O << "\"ctors\":[";
  if (auto *GC = M->getGlobalVariable("llvm.global_ctors")) if (GC->hasInitializer()) if (auto *CA = dyn_cast<ConstantArray>(GC->getInitializer())) { bool f = true; for (auto &Op : CA->operands()) if (auto *CS = dyn_cast<ConstantStruct>(Op)) if (auto *Fn = dyn_cast<Function>(CS->getOperand(1)->stripPointerCasts())) { if (!f) O << ","; f = false; O << jstr(Fn->getName()); } }
  O << "],\n";
  // function declarations (externals)
  O << "\"decls\":["; { bool f = true; for (auto &F : *M) if (F.isDeclaration() && !F.isIntrinsic()) { if (!f) O << ","; f = false; O << jstr(F.getName()); } } O << "],\n";
  // functions
  O << "\"functions\":[\n";
  bool firstF = true;
  for (auto &F : *M) {
    if (F.isDeclaration()) continue;
    if (!firstF) O << ",\n"; firstF = false;
    vid.clear(); bid.clear();
    int n = 0, nb = 0;
    for (auto &BB : F) { bid[&BB] = nb++; for (auto &I : BB) { if (isa<DbgInfoIntrinsic>(I)) continue; vid[&I] = n++; } }
    DISubprogram *SP = F.getSubprogram();
    std::string ffile = SP ? SP->getFilename().str() : "";
    O << "{\"name\":" << jstr(F.getName()) << ",\"internal\":" << (F.hasLocalLinkage() ? "true" : "false") << ",\"vis\":" << (int)F.getVisibility()
      << ",\"file\":" << jstr(ffile) << ",\"line\":" << (SP ? SP->getLine() : 0) << ",\"type\":" << jstr(tystr(F.getFunctionType()));
    if (SP) { auto *ST = SP->getType(); if (ST) { auto TA = ST->getTypeArray(); if (TA.size() > 0) { O << ",\"dret\":" << jstr(diName(TA[0])) << ",\"dparams\":["; for (unsigned i = 1; i < TA.size(); i++) { if (i > 1) O << ","; O << jstr(diName(TA[i])); } O << "]"; } } O << ",\"dname\":" << jstr(SP->getName()); }
    // attributes of interest
    O << ",\"attrs\":["; { bool a = true; for (auto k : {Attribute::AlwaysInline, Attribute::NoInline, Attribute::NoReturn}) if (F.hasFnAttribute(k)) { if (!a) O << ","; a = false; O << jstr(Attribute::getNameFromAttrKind(k)); } } O << "]";
    // variable names: dbg.value / dbg.declare
    std::map<const Value *, std::pair<std::string, std::string>> vname;
    std::vector<std::string> pnames(F.arg_size());
    for (auto &BB : F) for (auto &I : BB) if (auto *DV = dyn_cast<DbgVariableIntrinsic>(&I)) {
      auto *Var = DV->getVariable(); if (!Var) continue;
      Value *V = DV->getNumVariableLocationOps() ? DV->getVariableLocationOp(0) : nullptr; if (!V) continue;
      std::string nm = Var->getName().str(), ty = diTypedefChain(Var->getType()); if (ty.empty()) ty = diName(Var->getType());
      if (Var->isParameter() && Var->getArg() >= 1 && Var->getArg() <= F.arg_size() && pnames[Var->getArg() - 1].empty()) pnames[Var->getArg() - 1] = nm;
      if (!vname.count(V)) vname[V] = {nm, ty};
    }
    O << ",\"params\":["; for (unsigned i = 0; i < F.arg_size(); i++) { if (i) O << ","; O << "[" << jstr(pnames[i]) << "," << jstr(tystr(F.getArg(i)->getType())) << "]"; } O << "],\n";
    if (wantLoops) dumpLoops(F, FAM, O);
    O << "\"blocks\":[\n";
    bool firstB = true;
    for (auto &BB : F) {
      if (!firstB) O << ",\n"; firstB = false;
      O << "{\"id\":" << bid[&BB] << ",\"succ\":["; { bool s = true; for (auto *S : successors(&BB)) { if (!s) O << ","; s = false; O << bid[S]; } }
      O << "],\"insts\":[\n";
      bool firstI = true;
      for (auto &I : BB) {
        if (isa<DbgInfoIntrinsic>(I)) continue;
        if (auto *II = dyn_cast<IntrinsicInst>(&I)) { auto id = II->getIntrinsicID(); if (id == Intrinsic::lifetime_start || id == Intrinsic::lifetime_end) { /* keep ids dense: emit as nop */ } }
        if (!firstI) O << ",\n"; firstI = false;
        O << "{\"i\":" << vid[&I] << ",\"o\":" << jstr(I.getOpcodeName()) << ",\"t\":" << jstr(tystr(I.getType()));
        if (auto &DL = I.getDebugLoc()) { O << ",\"l\":" << DL.getLine(); if (auto *Sc = dyn_cast_or_null<DIScope>(DL.getScope())) { if (Sc->getFilename() != ffile) O << ",\"fl\":" << jstr(Sc->getFilename()); } }
        auto vn = vname.find(&I); if (vn != vname.end()) O << ",\"dv\":" << jstr(vn->second.first) << ",\"dt\":" << jstr(vn->second.second);
        if (auto *CB = dyn_cast<CallBase>(&I)) {
          Value *Callee = CB->getCalledOperand()->stripPointerCasts();
          if (auto *Fn = dyn_cast<Function>(Callee)) O << ",\"fn\":" << jstr(Fn->getName()); else { O << ",\"fn\":null,\"callee\":" << enc(CB->getCalledOperand()); if (auto *IA = dyn_cast<InlineAsm>(Callee)) O << ",\"asm\":" << jstr(IA->getAsmString()); }
          O << ",\"a\":["; for (unsigned a = 0; a < CB->arg_size(); a++) { if (a) O << ","; O << enc(CB->getArgOperand(a)); } O << "]";
          O << ",\"used\":" << (CB->use_empty() ? "false" : "true");
        } else if (auto *G = dyn_cast<GetElementPtrInst>(&I)) {
          O << ",\"a\":[" << enc(G->getPointerOperand()) << "],\"src\":" << jstr(tystr(G->getSourceElementType())) << ",\"path\":" << gepPath(G->getSourceElementType(), G->idx_begin(), G->idx_end(), enc, G->getPointerOperand());
          APInt off(64, 0); if (G->accumulateConstantOffset(*DLp, off)) O << ",\"coff\":" << off.getSExtValue();
        } else if (auto *P = dyn_cast<PHINode>(&I)) {
          O << ",\"a\":["; for (unsigned a = 0; a < P->getNumIncomingValues(); a++) { if (a) O << ","; O << enc(P->getIncomingValue(a)); } O << "],\"bb\":["; for (unsigned a = 0; a < P->getNumIncomingValues(); a++) { if (a) O << ","; O << bid[P->getIncomingBlock(a)]; } O << "]";
        } else if (auto *Sw = dyn_cast<SwitchInst>(&I)) {
          O << ",\"a\":[" << enc(Sw->getCondition()) << "],\"default\":" << bid[Sw->getDefaultDest()] << ",\"cases\":["; bool c = true; for (auto &Cs : Sw->cases()) { if (!c) O << ","; c = false; O << "[" << Cs.getCaseValue()->getSExtValue() << "," << bid[Cs.getCaseSuccessor()] << "]"; } O << "]";
        } else if (auto *Br = dyn_cast<BranchInst>(&I)) {
          O << ",\"a\":["; if (Br->isConditional()) O << enc(Br->getCondition()); O << "],\"succ\":["; for (unsigned s = 0; s < Br->getNumSuccessors(); s++) { if (s) O << ","; O << bid[Br->getSuccessor(s)]; } O << "]";
        } else {
          if (auto *Cm = dyn_cast<CmpInst>(&I)) O << ",\"p\":" << jstr(CmpInst::getPredicateName(Cm->getPredicate()));
          if (auto *Al = dyn_cast<AllocaInst>(&I)) { O << ",\"at\":" << jstr(tystr(Al->getAllocatedType())); }
          if (auto *SV = dyn_cast<ShuffleVectorInst>(&I)) { O << ",\"mask\":["; bool m = true; for (int x : SV->getShuffleMask()) { if (!m) O << ","; m = false; O << x; } O << "]"; }
          if (auto *EV = dyn_cast<ExtractValueInst>(&I)) { O << ",\"idx\":["; bool m = true; for (unsigned x : EV->indices()) { if (!m) O << ","; m = false; O << x; } O << "]"; }
          if (auto *IV = dyn_cast<InsertValueInst>(&I)) { O << ",\"idx\":["; bool m = true; for (unsigned x : IV->indices()) { if (!m) O << ","; m = false; O << x; } O << "]"; }
          if (auto *LI2 = dyn_cast<LoadInst>(&I)) if (LI2->isVolatile()) O << ",\"vol\":true";
          if (auto *SI2 = dyn_cast<StoreInst>(&I)) if (SI2->isVolatile()) O << ",\"vol\":true";
          O << ",\"a\":["; for (unsigned a = 0; a < I.getNumOperands(); a++) { if (a) O << ","; O << enc(I.getOperand(a)); } O << "]";
          if (auto *BC = dyn_cast<CastInst>(&I)) O << ",\"st\":" << jstr(tystr(BC->getSrcTy()));
        }
        O << "}";
      }
      O << "]}";
    }
    O << "]}";
    // names of allocas (dbg.declare) are in vname as well: emitted through "dv" above
  }
  O << "\n]}\n";
  O.flush();
  return 0;
}
