#!/bin/sh
# builds the IR fact extractor (LLVM 14 API, links libLLVM-14.so by path)
set -e
cd "$(dirname "$0")"
mkdir -p ../.work/bin
if [ ! -x ../.work/bin/pxir ] || [ pxir.cc -nt ../.work/bin/pxir ]; then
  clang++ $(llvm-config-14 --cxxflags) -O1 -fno-rtti -w pxir.cc -o ../.work/bin/pxir /usr/lib/llvm-14/lib/libLLVM-14.so
fi
