#!/usr/bin/env python3
"""tools/import_seed.py <ID> <n> <dir> — copy a confirmed seeded change into /verif/seeded/<ID>-<n>/ and record which checks detect it"""
import sys, os, shutil, json, subprocess, re
pid, n, d = sys.argv[1], sys.argv[2], sys.argv[3]
dst = '/verif/seeded/%s-%s' % (pid, int(n) + int(os.environ.get('SEED_OFFSET', '0')))
os.makedirs(dst, exist_ok=True)
shutil.copy(os.path.join(d, 'bug%s.diff' % n), os.path.join(dst, 'patch.diff'))
shutil.copy(os.path.join(d, 'demo%s.c' % n), os.path.join(dst, 'demo.c'))
notes = open(os.path.join(d, 'notes%s.txt' % n)).read()
ver = open(os.path.join(d, 'verify.log')).read()
sec = ver.split('== bug%s' % n)[1].split('== bug')[0].strip()
checks = sys.argv[4:] or [pid]
det = []; reports = []
for c in checks:
    r = subprocess.run(['/verif/tools/trymut', os.path.join(dst, 'patch.diff'), c], capture_output=True, text=True)
    lines = [l for l in r.stdout.splitlines() if re.match(r'^  C\d+-R\w+: ', l)]
    if 'VIOLATION' in r.stdout:
        det.append(c); reports.append(lines[0].strip()[:300] if lines else '')
meta = dict(property=pid, origin='independent sub-agent given only the property text and a scratch worktree of /repo', notes=notes,
            confirmed='applied in a scratch worktree: library builds, all 33 tests pass with the patch; demo PASS on the clean tree, FAIL with the patch',
            what_i_ran=sec, detected_by=det, first_report=reports[:1])
json.dump(meta, open(os.path.join(dst, 'meta.json'), 'w'), indent=1)
print(dst, 'detected_by', det)
