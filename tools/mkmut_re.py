import subprocess,sys,re
# helper: make patch by applying a python regex substitution once: mk.py out file pattern repl [count-index]
out,rel,pat,repl=sys.argv[1:5]; idx=int(sys.argv[5]) if len(sys.argv)>5 else 0
src=open('/repo/'+rel).read()
ms=list(re.finditer(pat,src,re.S))
m=ms[idx]
dst=src[:m.start()]+m.expand(repl)+src[m.end():]
import tempfile,os
with tempfile.TemporaryDirectory() as d:
    os.makedirs(os.path.join(d,'a',os.path.dirname(rel))); os.makedirs(os.path.join(d,'b',os.path.dirname(rel)))
    open(os.path.join(d,'a',rel),'w').write(src); open(os.path.join(d,'b',rel),'w').write(dst)
    r=subprocess.run(['diff','-u','a/'+rel,'b/'+rel],cwd=d,capture_output=True,text=True)
    open(out,'w').write(r.stdout)
print('wrote',out,len(ms),'matches')
