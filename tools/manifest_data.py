PROPS = {
 'C16': dict(
  technique='static analysis: whole-library global/effect inventory (T-WHO), control dependence in validate, interprocedural mutation summaries over the call graph',
  text='Decides, for every mutable global the build links (29 today), that it is thread-local, written only by functions whose every caller chain starts at the load-time constructor, or never written; '
       'that every store/call of the validate function is control-dependent on common.dirty != 0; and that no exported drawing entry point can reach a store into a struct field of a caller-supplied image '
       'outside validate. These are necessary conditions of race freedom for all schedules; schedules themselves are not explored.',
  note='Trusted: clang-14 IR equals the built program for this config.h; indirect calls are over-approximated by type. Not decided: user accessor callbacks, glyph cache (mutable argument), the non-constructor configuration.'),
}
NA_REASONS = {}
