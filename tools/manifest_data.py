PROPS = {
 'C16': dict(
  technique='static analysis: whole-library global/effect inventory (T-WHO), control dependence in validate, interprocedural mutation summaries over the call graph',
  text='Decides, for every mutable global the build links (29 today), that it is thread-local, written only by functions whose every caller chain starts at the load-time constructor, or never written; '
       'that every store/call of the validate function is control-dependent on common.dirty != 0; and that no exported drawing entry point can reach a store into a struct field of a caller-supplied image '
       'outside validate. These are necessary conditions of race freedom for all schedules; schedules themselves are not explored.',
  note='Trusted: clang-14 IR equals the built program for this config.h; indirect calls are over-approximated by type. Not decided: user accessor callbacks, glyph cache (mutable argument), the non-constructor configuration.'),
}
NA_REASONS = {}
PROPS['C02'] = dict(
  technique='static analysis: decoded dispatch tables checked against a licence predicate (T-TAB), sibling agreement of table rows, cache-key coverage, fail-before-write path query and dropped-status (T-ERR) with a depth-set discharge',
  text='Decides for all 506 composite and 68 iterator table entries of every implementation the build compiles (including MMX/C entries that SSE2 shadows in every test run) that the entry pins accessors, alpha map, '
       'narrowness, filter kind and sampling geometry for every image a raw routine reads; that each routine is registered only for layouts of one depth/channel order; that the chain ends in catch-alls; that the '
       'fast-path cache key covers all seven members; that blt/fill primitives return FALSE only before writing and that no caller drops that status unless its table rows guarantee the depth. and that each of the 44 SSE2/MMX combiners computes s*Fa + d*Fb with the factors of its operator slot (symbolic execution over the helper vocabulary, unified and component alpha, scalar and vector loops); and that the bodies of the untransformed SSE2/MMX composite fast paths (67 routine x operator x format-class combinations: OVER/ADD/SRC/IN/OUT_REVERSE with solid, a8, 8888, x888, 0565 operands) write, in every pixel loop and on every shortcut branch, the Porter-Duff result of the operator and formats of each table entry they are registered under: solid values and pointer roles come from pixman_composite_info_t, alpha-less formats are modelled with a channel indicator so that a missing |0xff000000 or a routine registered for a format whose alpha it misreads is a violation, shortcut conditions (is_opaque, is_zero, srca==0xff, mask==0xffffffff) are discharged by ideal membership. Necessary conditions of implementation equivalence; rounding and the composite fast-path bodies are not decided.',
  note='Trusted: clang-14 IR = built program; the licence predicate (closed list of flag shapes) transcribed from pixman-private.h semantics and calibrated to 0 deviations on the pinned tree. Non-x86 SIMD units are not compiled by this build and not analysed.')
PROPS['C14'] = dict(
  technique='static analysis: computed derived/input field sets of the validate closure, must-pass-through (every input write reaches a dirty mark), who-may-write, guard-completeness of early returns, reference/counter pairing',
  text='Computes from the IR the closure V of the validate function, the image fields V writes (derived) and reads (inputs). Decides that every write of an input outside V and outside constructors is followed on all paths by a store of non-zero to common.dirty; '
       'that derived fields are written only in V or on fresh objects and dirty is cleared only after recomputation; that every no-store return of an exported setter compares each stored parameter with its field (or is a rejection/refusal); '
       'that the fast-path cache key is complete; that alpha_count moves with the alpha-map reference. These decide "no setter leaves stale derived state behind" structurally for every path, not for sampled histories.',
  note='Trusted: clang-14 IR = built program. Not decided: that compute_image_info derives the right flags from the inputs; histories as such.')
PROPS['C20'] = dict(
  technique='static analysis: computed owned-field set, finaliser coverage (T-COV), release-before-overwrite path query (T-OWN), who-may-write ref_count (T-WHO), guard atoms of the alpha-map exchange (T-GRD)',
  text='Computes which image fields ever receive an allocation, a counted reference or an initialised region (owned fields) and decides that the finaliser releases each exactly once, only under ref_count == 0 and outside loops, with the matching release function; '
       'that destroy_func is called once and only there; that unref frees iff the finaliser says so; that every overwrite of an owned field releases or null-tests the old value on all paths; that ref_count is written only by init/ref/fini; '
       'that the alpha-map exchange is guarded by both chain refusals and by owner != referent and pairs ref/unref with alpha_count. Decided for every path of every function, which no finite history sample can do.',
  note='Trusted: clang-14 IR = built program. Not decided: histories as such; user misuse (unref more often than ref).')
PROPS['C03'] = dict(
  technique='static analysis: guard (edge-dominance) analysis of the composite-region function, linear-form comparison of clip/dispatch offsets with the Render geometry, interprocedural bound-obligation propagation for raw writers, bit-provenance of partial-byte stores',
  text='Decides that the composite region consults the clip of each of the six image roles under that role\'s own presence only (sibling symmetry), that the destination bounds and the alpha-map rectangle enter the extents, '
       'that clip offsets and per-box source/mask origins are the linear forms the Render geometry prescribes (x with x, y with y, right signs), that the routine is called once per rectangle of the region computed for the request, '
       'that raw fill/row writers reachable from the API outside the composite region get coordinates bounded by bits.width/bits.height, and (bit-provenance, all values) that 1/4/8/16/24/32-bpp stores leave every bit outside the addressed pixel unchanged. '
       'Necessary conditions; that each composite routine stays inside its box is not decided.',
  note='Trusted: clang-14 IR = built program; geometry oracle from the Render specification (DESIGN Appendix B.5). Known finding F11 (exported pixman_rasterize_edges trusts caller rows) is listed in known_findings.json.')
PROPS['C10'] = dict(
  category='proof',
  technique='static analysis: bit-provenance abstract interpretation of generated wrappers (T-BIT), table completeness/agreement (T-TAB/T-EXH), taint of pixel pointers in the accessor instantiation',
  text='Proof-level for the narrow direct formats: for each of the 34 formats using the generic accessors and every addressed offset in a 96-bit window, the provenance of all 32 fetched bits (and of all 96 memory bits after a store) equals the map computed from the format code alone '
       '(bit replication, absent alpha 1, absent colour 0, truncation to MSBs, neighbours unchanged) — deciding all 2^96 memory contents at once, for little- and (thorough) big-endian macros; unorm_to_unorm for all 256 width pairs. '
       'Plus: accessor table has a complete, null-consistent row for every accepted format in both instantiations; scanline/pixel/store functions of a row are instantiated with the row key; '
       'the accessor build never dereferences pixel memory except through read_func/write_func; constant conversion tables (float multipliers, sRGB) are end-point exact and monotone.',
  note='Trusted base: clang -O2 folding of the wrapper, the transfer functions of pxv/bitprov.py, the format-layout oracle (pixman.h). Not decided: float widening/narrowing arithmetic, YUV matrices, palettes, 10-bit wide formats.')
PROPS['C19'] = dict(
  technique='static analysis: fail-before-write path query and dropped-status rule for blt/fill (T-MPT/T-ERR), bit-provenance equality of color_to_pixel with the general store codec (T-BIT), depth-set inclusion (T-EXH), bound obligations for the direct fill',
  text='Decides that blt/fill primitives return FALSE only before writing and that no caller drops that status unless its registration guarantees the depth; that for each of the 12 formats the direct-fill shortcut accepts, its pixel equals the general store conversion of the solid colour on all defined bits for all 2^64 colours; '
       'that every such depth is handled by the portable fill; that the shortcut\'s rectangles are bounded by the image. Head/body/tail pixel accounting of the fill loops is not decided here.',
  note='Trusted: clang-14 IR = built program, bitprov transfer functions. F1/F7 were repaired in /repo (fix: commits).')
PROPS['C01'] = dict(
  technique='static analysis: operator-slot exhaustiveness against the public enum (T-EXH), symbolic factor extraction from the float, 8-bit C and SSE2/MMX combiners compared with the Render table by rational normal form / ideal membership (T-ALG), symbolic path equivalence of masked vs unmasked combiner paths over uninterpreted blend functions, must-pass-through of the mask helpers',
  text='Decides for all 53 operators that the pipeline general_composite_rect can select has a combiner (float always, 32-bit wherever needs_division is 0), and for the 38 Porter-Duff/disjoint/conjoint operators x {unified, component alpha} that the registered float combiner computes min(1, s*Fa + d*Fb) '
       'with exactly the Render factors: each factor is read out of the IR of the factor switch (zero guard, clamp, rational expression) and compared symbolically (sympy) with the specification, including the observable division-by-zero defaults. A wrong or swapped factor, a slot registered under the wrong operator, or a missing slot is reported by operator. '
       'The same factor comparison is made for the 25 8-bit C combiners of pixman-combine32.c (symbolic execution over a derived header that makes the UN8x4_* primitives opaque; shortcut branches are discharged by ideal membership under their own condition) and for the 44 SSE2/MMX combiners over the repository\'s helper vocabulary — code that SSE2 shadows in every test run. '
       'Mask pre-multiplication is decided separately: in every float combiner that handles the mask itself (combine_inner, the four HSL combiners) one loop iteration is executed symbolically with the blend functions uninterpreted, and the masked path must equal the unmasked formula applied to source*mask (unified: all four components by the mask alpha; component alpha: per channel); every combine_inner wrapper must forward (dest, src, mask, n) and pass component=0 exactly in unified slots; '
       'every 8-bit C combiner not already decided exactly must reach the source only through combine_mask / combine_mask_ca (path query: no read of the source pixel that bypasses the helper). This rule found defect F15 (float HSL combiners scaled green twice and blue never), now fixed.',
  note='Trusted: clang-14 IR = built program; the Render factor table (DESIGN Appendix B.1). Not decided: 8-bit rounding macros, the PDF blend formulas themselves (uninterpreted), fetch/store and quantisation.')
PROPS['C09'] = dict(
  technique='static analysis: finite rewriting of Porter-Duff factor pairs under sa:=1 / da:=1 against the decoded operator_table (T-ALG)',
  text='Decides for all 53 operators x {neither, source, destination, both opaque} that the replacement operator named by operator_table has the same factor pair as the original after substituting the opacity (with range reasoning for the clamped disjoint/conjoint factors and the premultiplication argument for unobservable defaults); non-Porter-Duff operators must map to themselves. 212 obligations, exhaustive.',
  note='Trusted: Render factor table; sympy simplification. Not decided here (planned: guard atoms of the opacity flags in compute_image_info and of the mask elision).')
PROPS['C12'] = dict(
  technique='static analysis: compile-time evaluation of the sample-grid macros (witness identities), clamp/guard recognition in the six edge rasterisers, guard atoms of the direct-rasterise shortcut, factor algebra for zero_src_has_no_effect, field coverage of the extents computation',
  text='Decides the constant identities that make coverage an exact sample count (N_X*N_Y == 2^n-1, steps add to one pixel, sample positions inside the pixel, RENDER_SAMPLES_X end points) for depths 1/4/8; that each of the six rasteriser instantiations clamps lx at 0 and rx at exactly bits.width and uses unclamped coordinates nowhere in a row address; '
       'that the direct-rasterise shortcut requires ADD, opaque source, equal format and an unclipped destination; that zero_src_has_no_effect is TRUE only where Fb(sa=0)=1; that the trapezoid bounding box folds every end point. Edge stepping and sample_ceil/floor arithmetic are not decided.',
  note='Trusted: clang constant folding of the macros; Render factor table.')
PROPS['C17'] = dict(
  technique='static analysis: guard completeness of the capacity test over computed occupancy counters (T-GRD), state/counter pairing in the table mutators (T-PAIR), bounded-index check of every glyphs[] access, constant witnesses',
  text='Recognises the table mutators by role (the function storing a glyph, the one storing the tombstone constant, the one clearing all slots), computes the occupancy counters from them, and decides: the test that dominates insertion bounds the sum of all occupancy counters strictly below HASH_SIZE-1 (termination of every probe loop); '
       'each slot-state change moves the matching counter, tombstone reuse decrements exactly under the tombstone comparison, clearing resets both and visits HASH_SIZE slots, every removal is followed by the release on all paths; every index into glyphs[] is masked or loop-bounded; HASH_SIZE is a power of two with room for the high-water mark; insertion copies the image and requires a frozen cache. '
       'Holds for every history because it is a property of each mutator\'s paths.',
  note='Trusted: clang-14 IR = built program. F3 (capacity test ignored tombstones and allowed a full table) was repaired in /repo. Not decided: LRU order, glyph drawing equivalence.')
PROPS['C05'] = dict(
  technique='static analysis: control dependence of the band sweep\'s reset on both aliasing comparisons, interprocedural fails-broken summaries with feasibility pruning of status variables (T-MPT), field-wise copy coverage (T-COV), sentinel/guard inventory',
  text='For both instantiations (16- and 32-bit) decides: the band sweep discards the result\'s rectangles only under pointer comparisons with both operands, keeps them until the end and frees them on every exit; copy tests dst == src; '
       'every exported operation that returns FALSE has left its result as the broken region (bottom-up summaries over rect_alloc, the sweep, validate, copy, union...); conversions copy each coordinate from the same-named one; the empty/broken sentinels are constant size-0 objects and every free of region data is guarded. '
       'The rectangle arithmetic of the sweep and of the overlap callbacks is value-level and not decided.',
  note='Trusted: clang-14 IR = built program.')
PROPS['C06'] = dict(
  technique='static analysis: field coverage of equal() (T-COV), emptiness-before-extents guard (T-GRD), must-pass-through of extents recomputation and coalescing (T-MPT), deviant-sibling normalisation rule (T-PAIR)',
  text='Decides for both instantiations that equal() compares all four extents, the count and all four coordinates of each pair, and tests emptiness of both operands before touching extents; that every exported operation running the band sweep re-establishes the result\'s extents on all success paths; '
       'that each band-producing step in the sweep is followed by the coalesce step and the three-way normalisation exists; that a function which can reduce numRects to 0 normalises the empty case wherever it normalises the singleton. Canonical form itself (banding, minimality) is value-level and not decided.',
  note='Trusted: clang-14 IR = built program. F8 (translate left numRects==0 unnormalised) and F14 (equal() on empty regions with stale extents) were repaired in /repo.')
PROPS['C07'] = dict(
  technique='static analysis: width of arithmetic feeding overflow_int_t variables from debug types (T-WID), empty normalisation of translate (T-PAIR), return-value set and format guards',
  text='Decides that every value assigned to a variable of the repository\'s overflow_int_t typedef is computed at that width (a narrower add hidden under the widening cast defeats the overflow detection of translate), that translate normalises an emptied region, that contains_rectangle returns only the three enumerators and that bitmap import reads only a1 BITS images. '
       'Membership answers and the PART/IN/OUT sweep are value-level and not decided.',
  note='Trusted: clang-14 IR and debug info. F9 (32-bit sums formed before widening) was repaired in /repo.')
PROPS['C15'] = dict(
  technique='static analysis: may-be-NULL forward dataflow for every allocation result (T-NUL), fallibility fixpoint + unused-result rule with argument specialisation (T-ERR), local ownership path query (T-OWN), region failure protocol and sentinel guards',
  text='Over every function reachable from the exported API: a forward may-be-NULL dataflow (through SSA values, phis and fields the result is stored to) shows that no result of malloc/calloc/realloc or of a function that can pass an allocation failure on as NULL is dereferenced on a path where it has not been tested; '
       'the status of every function that can fail through an allocation is used at each call site (or the failing paths are unreachable for the constant/non-null arguments passed); every locally owned allocation is released on all paths (stack-buffer idiom recognised); '
       'region operations that fail leave the broken sentinel and sentinel data is never freed. This quantifies over every allocation site and every path at once, instead of the k-th allocation of sampled runs.',
  note='Trusted: clang-14 IR = built program. Out of scope: the load-time constructor chain (unchecked implementation allocations abort at library load, outside any API call).')
PROPS['C04'] = dict(
  technique='static analysis: guard-pair proofs at every site that asserts SAMPLES_COVER_CLIP (T-WHO + T-GRD), repeat()/bounds typestate over constant-specialised CFGs, table licence predicate, bound-obligation propagation, edge clamps',
  text='Decides that a COVER_CLIP bit is introduced only under guards that compare each of x1,y1 with 0, x2 with width and y2 with height (or under the glyph box intersection / the tiled-repeat modulo), and that composite32 dispatches only when both extent analyses succeeded; '
       'that every coordinate used to address pixels without a bounds check (unchecked get_pixel calls, row addresses of the 48 generated affine fetchers and their helpers) was loaded after repeat() with the matching dimension on every path, or — per repeat-mode specialisation — passed both bounds tests of its axis; '
       'that table entries license raw reads (C02-R1), raw API writers are bounded (C03-R2) and the edge rasterisers clamp (C04-R7). Loop-level bounds of the SIMD/C scanline routines are not decided.',
  note='Trusted: clang-14 IR = built program. Known finding F11 (exported pixman_rasterize_edges) is listed in known_findings.json.')
PROPS['C08'] = dict(
  technique='static analysis: repeat typestate (shared with C04), bit-provenance of the weight/integer split (T-BIT), table-vs-instantiation agreement for the generated fetchers (T-TAB), enumerator exhaustiveness of filter/repeat switches (T-EXH)',
  text='Decides that unchecked sampling coordinates are wrapped by repeat() with the right dimension (NONE uses the bounds-checked fetch), that the bilinear weight is exactly bits [16-B,16) and the integer part bits [16,32) of the fixed-point coordinate, that each of the 48 generated affine fetchers is registered under the format and repeat mode it was instantiated with and the untransformed fetcher excludes the repeats it does not implement, '
       'and that every filter/repeat enumerator is handled by the switches that dispatch on it. The fetched values themselves (interpolation arithmetic, convolution alignment, SIMD scalers) are not decided.',
  note='Trusted: clang-14 IR = built program, bitprov transfer functions.')
PROPS['C11'] = dict(
  technique='static analysis: assertion inventory with type-range discharge at call sites and a confirmed-invariant table (T-WHO), coverage of overflow tests over all components (T-COV), guard dominance of narrowing stores (T-GRD), unused-status rule (T-ERR), width of products (T-WID), sibling rounding constants',
  text='Decides that no assert() in the matrix unit can fire from the public API (each is discharged by the sign-extended 32-bit range of every caller\'s vector, or is a confirmed invariant keyed by its exact expression), that point/point_3d compare all three narrowed components, that multiply\'s narrowing store is dominated by both range tests and the float conversion by both bounds, '
       'that no library caller ignores a matrix function\'s status, that 64-bit accumulations widen before multiplying, and that the 16.16 roundings agree on +0x8000. Exact rounding of the 128-bit division and transform_bounds (F6) are value-level and not decided.',
  note='Trusted: clang-14 IR = built program. F4 (assert(div < 2^48) reachable from pixman_transform_point) was repaired in /repo; the relaxed assertion is in the confirmed table with its reason. F6 is recorded in DESIGN.md as outside static reach.')
PROPS['C13'] = dict(
  technique='static analysis: protocol-constant agreement between allocation, bias and free (T-PAIR), bounded-index classification of every stop access by linear form, constructor status use (T-ERR), sentinel contents against the repeat semantics',
  text='Recovers from the IR the number of spare stop elements allocated, the bias applied to the stored pointer and the bias undone before free, and decides K_f == K_b >= 1, K_a >= K_b+1; classifies every index into gradient.stops / walker stops across the library as a constant, n_stops+c or a stop-count-bounded loop counter+c and requires it inside [-K_b, n_stops+K_a-K_b-1]; '
       'requires every gradient constructor to test the initialiser and the three scanline functions to test pixman_transform_point_3d; compares, for each of the four repeat modes, position and colour source of both sentinel stops with the Render repeat semantics. Colours, root selection and t computation are value-level and not decided.',
  note='Trusted: clang-14 IR = built program; repeat semantics transcribed from Render (DESIGN Appendix B.6).')
PROPS['C18'] = dict(
  technique='static analysis: symbolic polynomial comparison of the block layout at writer, acceptance test and readers (sympy normal forms), affine write accounting over LoopInfo/ScalarEvolution facts, enumerator-ordered table check',
  text='Turns the length/offset expressions of the block writer, of pixman_image_set_filter\'s acceptance test and of the three readers into polynomials over the header values (w, h, bx, by) and requires them to agree: total 4 + w*2^bx + h*2^by, x table at 4, y table at 4 + w*2^bx, phase rows of w resp. h entries, header slots fixed(w,h,bx,by); '
       'shows from loop induction facts that the per-axis writer advances by exactly `width` per phase (two unit-stride passes with trip count width, one rewind by -width) for n_phases phases and adds the 1.0 residual to a tap of the phase; filters[] is indexed consistently with pixman_kernel_t. '
       'That the coefficients sum to exactly 65536 is a floating-point fact and not decided (only the mechanism is).',
  note='Trusted: clang-14 IR, LLVM ScalarEvolution, sympy simplification; block layout per pixman.h (DESIGN Appendix B.3).')

# rules added after the seeded-change rounds (appended to the texts above)
_EXTRA = {
 'C03': ' Byte-budget discipline of the SIMD fill/blt primitives (C03-R7): every step that consumes k bytes of the row stores at most k bytes from the row cursor and is entered only under budget >= K, K >= k, so nothing is written past the right edge.',
 'C05': ' Alias tests of the band sweep are paired with the rectangle count of the operand they name (C05-R1); every path on which a region-producing function returns TRUE has produced its result (store, callee that writes it, or the result-is-operand test) (C05-R4).',
 'C07': ' In-place compaction loops (translate) store only through the conditional output cursor, never through the input cursor (C07-R4).',
 'C08': ' Axis consistency of the separable-convolution readers: no product or shift combines x header fields (width, x phase bits) with y header fields (C08-R5); the loop-carried components of one position vector (x, y, w) are all advanced on every path to the back edge (C08-R6).',
 'C09': ' Interprocedural must-precede (C09-R4): every exported function validates an image parameter before it, or a callee it hands the parameter to, reads common.flags / extended_format_code (null-guarded needs are followed consistently).',
 'C11': ' Every floating-point to integer conversion of pixman-matrix.c converts scale*d+offset of a value whose range guards keep the result inside the integer type it is finally stored in (C11-R6, exact rational arithmetic over the IEEE constants); this rule found defect F16 (pixman_f_transform_bounds wrapped its 16-bit box), now fixed.',
 'C13': ' A vector filled straight from the image transform takes row k for component k and one column throughout; a vector only scaled by the height must be the y column (C13-R6).',
 'C14': ' Interprocedural must-precede (C14-R7): derived state (common.flags, extended_format_code) is read by exported entry points and the internal functions they hand images to only after the validate function ran on that image.',
 'C16': ' No exported drawing entry point, outside validate, stores to memory reached from a source or mask image - the image struct, the clip region embedded in it, its arrays (C16-R4, reachability summaries through loads and field addresses). Without a load-time constructor every store to a mutable global is judged a run-time store.',
 'C18': ' Axis consistency of all readers (C18-R5) and acceptance domain (C18-R6): partial evaluation of pixman_image_set_filter for every phase-bit count 0..16 and kernel size 1..64 shows a path to the installing store, so no well-formed block is refused on a header field alone.',
 'C19': ' The operator is rewritten to SRC only for OVER under alpha == all-ones of the alpha field\'s type, or CLEAR with an all-zero colour (C19-R6); byte-budget discipline of the SIMD fill/blt loops including the tail granularity versus the smallest accepted pixel (C19-R7): no byte of the rectangle is left unwritten and none beyond it is written.',
}
for _k, _v in _EXTRA.items():
    PROPS[_k]['text'] = PROPS[_k]['text'].rstrip() + _v
PROPS['C01']['text'] = PROPS['C01']['text'].rstrip() + ' The bodies of the 93 untransformed composite fast paths (SSE2, MMX and portable C) are decided by C02-R10 (shared with C02), and the HSL saturation helper\'s channel classification is checked against all weak orderings of r, g, b on every path of its comparison tree (C01-R7).'
PROPS['C02']['text'] = PROPS['C02']['text'].replace('(67 routine x operator x format-class combinations:', '(93 routine x operator x format-class combinations over SSE2, MMX and the portable C fast paths, the latter through the derived header:')

_EXTRA2 = {
 'C01': ' Early returns of a fast path taken before its pixel loops (solid source == 0 ...) must leave exactly what the operator requires (C02-R10); the opacity flag sites of C09-R2, including the exact `i < n_stops` bound of the gradient-stop loop, are part of this check.',
 'C02': ' The 25 C combiners are decided here too (C01-R4, helper calls with several outcomes split the caller\'s path); SIMD fill words replicate the filler exactly (C02-R11 bit provenance); convolution totals are signed in every fetcher (C02-R12, found defect F17: the general path clipped negative totals to 0xff while the C fast path gives 0 - fixed); axis consistency of the convolution readers (C02-R13); SIMD scanline fetchers of alpha-less formats deliver opaque pixels in head, body and tail (C02-R14).',
 'C03': ' Every consulted clip is guarded by that object\'s have_clip_region (C03-R1); the row bound of raw writers needs the exact `row >= height` clamp (or a transitive bound through an exactly clamped value) (C03-R2); the alpha-map setter\'s early return is checked (C14-R3).',
 'C06': ' Merge-or-append decisions of the band code merge on equality (x1 <= x2), 14 sites including validate (C06-R5).',
 'C07': ' Clamps of one axis are never conditional on range tests of the other axis (C07-R5).',
 'C08': ' Convolution totals signed (C08-R7) and coefficient products 64-bit (C08-R8); the second bilinear neighbour is first+1 of the unmapped coordinate (C08-R7n, 22 fetchers); the tiled rotations walk the source by +stride (90) / -stride (270) per destination pixel (C08-R8r, symbolic derivative); outside samples stay 0 (C09-R6).',
 'C09': ' SIMD fetchers of alpha-less formats deliver alpha 1 in every loop (C09-R5); a 0 substituted for an outside sample is never or-ed with the alpha mask afterwards (C09-R6); fill_boxes\' OVER->SRC rewrite (C19-R6).',
 'C10': ' SIMD scanline fetcher bodies executed symbolically: every loop writes the source pixel with alpha forced (C10-R8); both generic float readers widen with the image\'s own format (C10-R9).',
 'C11': ' Shortcuts on the integer part of w also test the 16-bit fraction (C11-R7).',
 'C12': ' Divisions of the 64-bit edge error term are formed before any narrowing (C12-R7); in the a8 rasteriser the row count restarts (constant) on every path that writes out the whole pending span (C12-R8, path-sensitive phi resolution).',
 'C13': ' In functions with a projective and a non-projective pixel loop the latter is unreachable when a transform is present and w != 1 (C13-R7, partial evaluation).',
 'C14': ' A consulted clip requires have_clip_region of the same object (C03-R1); a clip setter that reports success has replaced the clip (C05-R4).',
 'C15': ' No allocation result is handed on or dropped untested (C15-R7, path query from the call to the next hand-over); no field is left dangling after a free on a failure path (C15-R8).',
 'C17': ' clear_table (also in its memset form) resets both counters; every site that switches component alpha on uses the same predicate on the format (C17-R5).',
 'C18': ' Coefficient products are formed in 64 bits in every reader (C18-R8).',
 'C19': ' The value stored by the SIMD fills is the filler replicated bit-exactly for each accepted depth (C19-R8).',
 'C20': ' Outside destructors a freed field (or a finalised embedded region) is re-established on every path to a return (C20-R7).',
}
for _k, _v in _EXTRA2.items():
    PROPS[_k]['text'] = PROPS[_k]['text'].rstrip() + _v

_EXTRA3 = {
 'C01': ' The MMX and SSE2 helpers that widen r5g6b5 destinations and narrow the result back are checked bit for bit against replication / truncation (C01-R8, 33 wrappers through a SIMD bit-provenance interpreter).',
 'C02': ' The pixbuf/rpixbuf format substitution requires equal source and mask origins (C02-R15); SIMD 565/8888 helpers have the provenance of the general codec (C02-R16); in SSE2 bilinear scanlines the packed weight vector advances with the scalar position on every edge (C02-R17, relational induction over paired phis); convolution fetchers of the fast path and of the general path subtract the same rounding epsilon (C08-R11).',
 'C04': ' No pixel loop fetches through a loop-carried cursor a value that only the next iteration uses, unless it tests the remaining count first (C04-R10, 956 loops); NORMAL-repeat coordinate wraps of the scaled scanlines are loops, not single subtractions (C04-R9); rotation offsets and convolution window starts use the common rounding epsilon (C08-R11); the right-edge clamp of the edge rasterisers is the depth\'s own (C04-R7).',
 'C05': ' copy() sets numRects on every path that copies (C05-R5); extents-subsumption shortcuts of union require the subsuming region to be a single rectangle (C05-R6); all scans of the rectangle sort compare (y1, x1) with (y1, x1) (C05-R7).',
 'C06': ' Independent comparisons of one coordinate pair never are strict in opposite directions (C06-R6, contradiction rule: boundary case classified consistently).',
 'C07': ' The previous-band index of init_from_image survives an iteration only on the path that extended that band (C07-R6, path-sensitive); equality sides of independent comparisons agree (C07-R7).',
 'C08': ' Signed division of projective coordinates (C08-R9, found defect F19 - fixed); AFFINE/scale/rotate flags require matrix[2][2] == 1 (C08-R10); rounding epsilon siblings (C08-R11); SSE2 bilinear weight vector tracks vx (C08-R13).',
 'C09': ' Opacity of a solid is decided on the 16-bit alpha; constants or-ed into substituted samples (C09-R6).',
 'C10': ' Accessor presence is tested with the same (||) predicate at every site (C10-R10); the two yuy2 readers address the shared chroma pair identically (C10-R11); SIMD 565/8888 widening and narrowing helpers bit for bit (C10-R12); arithmetic in the 16->8 colour narrowing is a violation (C19-R3).',
 'C11': ' rotate/scale/translate multiply forward on the left and reverse on the right (C11-R8); the signed wrapper of the 128-bit division negates dividend and quotient as one two\'s-complement (hi, lo) number, carry included (C11-R9, affine path evaluation).',
 'C12': ' pixman_edge_step conserves e + x*dy on both branches, sign and carry (C12-R9, found defect F20 - fixed).',
 'C13': ' Every component of the running position advances on every path round a pixel loop (C13-R8); the radial parameter written is a root of a*T^2 - 2bT + c, also in the linear case (C13-R9, symbolic).',
 'C14': ' Early returns of setters compare whole objects (region_equal only with have_clip_region; byte counts in bytes) (C14-R3); copy() keeps size/numRects in step (C05-R5).',
 'C15': ' Image setters assign the new mode fields only after the fallible allocation succeeded (C15-R9); a cleanup loop never receives an element count computed before an earlier release of an element (C15-R10).',
 'C16': ' The clip of a source/mask image is never translated in place (C16-R4 over clip_general_image); per-depth right-edge clamp (C04-R7).',
 'C18': ' Zero-width and zero-total phases are handled (C18-R9, found defect F18 - fixed); block copies into the parameter block are accounted like element stores (C18-R1); guards of integral() admit touching supports because filters[] has a width-0 kernel (C18-R10).',
 'C19': ' Coordinates handed on to per-depth helpers are unchanged or shifted under a guard on that very coordinate (C19-R9).',
 'C20': ' Struct assignment over a live region counts as re-initialisation (C20-R6); table clearing releases through the unlinking helper (C15-R6 type-based).',
}
for _k, _v in _EXTRA3.items():
    PROPS[_k]['text'] = PROPS[_k]['text'].rstrip() + _v

_EXTRA4 = {
 'C02': ' MMX bilinear scanlines are covered by C02-R17 too (scalar-replaced IR); all nearest scanlines wrap the coordinate with a loop (C02-R18).',
 'C03': ' After a budget loop the word the cursor is left on is touched only under a test of the remaining count (C03-R8 = C04-R11).',
 'C04': ' Tail accesses after budget loops need a test of the remaining count (C04-R11, 13 sites); a failed image setter leaves filter kind and parameter block in step (C15-R9).',
 'C05': ' Every advance of the minuend cursor in subtract reloads the left fence (C05-R8); each source line of pixman-region.c has the same signedness in the 16- and the 32-bit instantiation (C05-R9, 392 lines).',
 'C07': ' The two "entirely out of range" tests of translate pair the same limits with the same edges (C07-R8).',
 'C08': ' C08-R13 covers the MMX bilinear scanlines as well.',
 'C10': ' The property_changed hook of a bits image never skips re-installing the accessors because they are already installed (C10-R13).',
 'C14': ' No property_changed hook returns early on a field it installs itself (C14-R8).',
 'C19': ' Tail accesses after budget loops (C19-R10 = C04-R11).',
}
for _k, _v in _EXTRA4.items():
    PROPS[_k]['text'] = PROPS[_k]['text'].rstrip() + _v

_EXTRA5 = {
 'C07': ' A branch that decides from the bitmap word whether the per-bit loop of init_from_image runs sits under a test of the run state (C07-R9).',
 'C11': ' The affine point helper (ignores vector[2] and matrix row 2) is called only under a guard on the vector\'s third component (C11-R10).',
 'C13': ' Coordinates taken from a vector/transform are widened before 64-bit arithmetic, never after 32-bit arithmetic (C13-R10, 72 sites).',
 'C14': ' Validate clears the dirty flag on every path once it found the image dirty (C14-R9).',
 'C15': ' A region operation never returns without having examined an input that could be the broken region (C15-R11, path-sensitive facts per input).',
 'C16': ' Validate clears dirty for every kind of image, hook or not, so later requests do not store into a shared source (C16-R5).',
 'C17': ' Arguments of the insertion call are stored into the entry without narrowing (C17-R6); the table-clearing role is recognised by its memset alone.',
 'C20': ' What a function allocates for itself is released on every path (C15-R3 wired in: stack-or-heap tests and their release tests must agree).',
}
for _k, _v in _EXTRA5.items():
    PROPS[_k]['text'] = PROPS[_k]['text'].rstrip() + _v

_EXTRA6 = {
 'C01': ' The executor no longer takes an or of several pixels\' mask bytes equal to 0xff as "all opaque", and recognises the saturating-add idiom only when the carry bit survives to the shift.',
 'C02': ' Coefficient products 64-bit in both convolution readers (C02-R19).',
 'C03': ' A clip region is read only under the same image\'s have_clip_region, in the function or at every call site (C03-R9).',
 'C05': ' A loop that keeps its own running copy of cursor->field never reads the raw field again (C05-R8, second clause).',
 'C06': ' Clamps independent per axis and sibling range tests (C07-R5, C07-R8).',
 'C07': ' The x and the y comparison of the same two boxes classify the touching case alike (C07-R10, 56 pairs).',
 'C08': ' The float bilinear blend is the four-neighbour formula in every channel (C08-R14, symbolic).',
 'C11': ' Every term of a matrix-vector product pairs column j with component j (C11-R11); a helper that divides by its argument is called only under a test of that argument (C11-R12).',
 'C12': ' Every write-out of the deferred a8 span multiplies the row count by N_X_FRAC (8) (C12-R10).',
 'C13': ' The float and the 32-bit walker test the cached segment with the same comparisons (C13-R11).',
 'C15': ' The cleanup loop bound is exclusive (C15-R10).',
 'C16': ' A read-modify-write of the word after a 1-bpp span is excluded (C16-R6 = C04-R11, guard evaluated at count 0).',
 'C17': ' The empty-slot test of the removal looks one probe step ahead (C17-R7); the table is dumped only under comparisons with N_GLYPHS_HIGH_WATER (C17-R8).',
 'C18': ' The tap that absorbs the rounding residue becomes old + (pixman_fixed_1 - accumulated sum) (C18-R11).',
 'C19': ' The destination clip is consulted under have_clip_region (C19-R11).',
 'C20': ' The table-clearing sweep visits every slot (C17-R2 wired in).',
}
for _k, _v in _EXTRA6.items():
    PROPS[_k]['text'] = PROPS[_k]['text'].rstrip() + _v

_EXTRA7 = {
 'C01': ' Per-pixel reads of the mask scanline happen only under the 32-bit pipeline selector (C01-R9, found defect F21 - fixed); fetchers skip a pixel only when the whole mask word is zero (C01-R10); the 15 float blend functions are bi-homogeneous of degree (1,1) in (source, destination) (C01-R11, dimensional analysis).',
 'C02': ' Transform classification flags under solved equality guards (C02-R20); lane consistency of MMX pack8888 (C02-R21).',
 'C03': ' The composite region is computed from the caller\'s own source, mask and destination (C03-R10).',
 'C05': ' The single-rectangle normalisation is the last change of numRects (C05-R10).',
 'C06': ' Normalisation after the last change (C06-R7); no extents recomputation after data = NULL (C06-R8); aliasing guards (C05-R1).',
 'C07': ' Clamp constants are the limits of the box coordinate type (C07-R11); extents before the list is dropped (C07-R12).',
 'C08': ' Mask reads follow the pipeline width (C08-R15, defect F21); flag guards solved as a linear system (C08-R10).',
 'C09': ' Radial gradients are opaque only for a < 0 exactly (C09-R2).',
 'C12': ' Saturating-add loops inside the deferred span add fill_size * N_X_FRAC (8) (C12-R10, second clause).',
 'C13': ' The coordinate that starts from v.vector[i] steps by matrix[i][0] (C13-R12); radial opacity (C09-R2).',
 'C14': ' The gradient hook re-derives the sentinel stops from the current repeat mode (C13-R4).',
 'C19': ' In blt every stride * y pairs the stride, the y and the buffer of the same side (C19-R12).',
 'C20': ' A region initialised unconditionally by the constructor is finalised under no guard but the reference count (C20-R8).',
}
for _k, _v in _EXTRA7.items():
    PROPS[_k]['text'] = PROPS[_k]['text'].rstrip() + _v

_EXTRA8 = {
 'C01': ' The 8-bit blend functions get the same degree analysis (C01-R12); source and mask are taken for one pixbuf only when their strides agree too (C01-R13, defect F28 - fixed).',
 'C02': ' Same-buffer detection compares the row strides as well as the bits pointers (C02-R22, defect F28 - fixed).',
 'C03': ' The destination alpha map\'s clip is translated by the offset its bounds are placed at (C03-R12; the tree does not: known finding F26); shortcuts that write the destination directly are taken only without an alpha map (C03-R13, defects F24/F27 - fixed); no equality test with a value outside the expression\'s range (C03-R14, defect F25 - fixed).',
 'C05': ' A one-rectangle region built from the caller\'s coordinates is validated first (C05-R11, defect F23 - fixed).',
 'C06': ' Or-combined range tests are compared with "<" only (C06-R9, defect F22 - fixed).',
 'C07': ' Or-combined range tests: the or of differences is negative iff one is, but zero only if all are, so "<= 0" is not a disjunction (C07-R13, defect F22 - fixed).',
 'C10': ' A shortcut that is handed the raw bits pointer is guarded by read_func == write_func == NULL (C10-R14, defect F24 - fixed).',
 'C12': ' No equality test compares a shifted / masked / widened value with a constant outside its range (C12-R11, defect F25 - fixed); the direct trapezoid route is taken only without an alpha map (C12-R12, defect F27 - fixed).',
 'C19': ' pixman_image_fill_boxes and every other exported function with a compositing route and a direct-write shortcut take the shortcut only for a destination without alpha map and, for raw pointers, without accessors (C19-R13, defects F24/F27 - fixed).',
}
for _k, _v in _EXTRA8.items():
    PROPS[_k]['text'] = PROPS[_k]['text'].rstrip() + _v

_EXTRA9 = {
 'C01': ' The output cursor and the zero-filled byte counts of routines shared by both pipelines scale by four under the float selector (C01-R14).',
 'C02': ' Single-pixel tails of the fast paths are executed like the pixel loops (C02-R10); the scanline readers of alpha-less formats force alpha in every store (C02-R23).',
 'C04': ' The setter compares n_params on the path of every filter kind whose fetcher walks the parameter block (C04-R12, defect F30 - fixed).',
 'C05': ' A rectangle without points is the empty set of the operator that receives it (C05-R12); differences of box coordinates keep their width (C05-R13, defect F29 - fixed).',
 'C06': ' Constructed rectangles are validated (C06-R10); running extents updates are independent (C06-R11).',
 'C07': ' Running minima / maxima of the extents are updated independently of each other (C07-R14); range tests are applied before narrowing (C07-R15).',
 'C08': ' Cursor steps follow the pipeline width (C08-R16).',
 'C09': ' Scanline readers of alpha-less formats force alpha in every store, vector body and scalar tail (C09-R7), and the widening helpers they delegate to are decided by bit provenance (C09-R8).',
 'C10': ' Every store of an alpha-less scanline reader has its alpha byte forced (C10-R15).',
 'C11': ' 64-bit results are range-tested before they are narrowed (C11-R13, defect F31 - fixed); negations exclude the most negative value (C11-R14, defect F32 - fixed).',
 'C12': ' The mask route keeps the 32 bits of the extents (C12-R13, defect F29 - fixed); add_traps and rasterize_trapezoid clamp the bottom at (height << 16) - 1 (C12-R14); the restart value of the pending row count is 0 or 1 (C12-R8).',
 'C15': ' A region\'s data pointer is overwritten outside the region module only after the region has been finalised or when it is freshly initialised (C15-R12).',
 'C18': ' The setter relates n_params to the header for every filter kind whose fetcher walks the block (C18-R12, defect F30 - fixed).',
 'C20': ' A region\'s data pointer is overwritten outside the region module only after the region has been finalised or when it is freshly initialised (C20-R9).',
}
for _k, _v in _EXTRA9.items():
    PROPS[_k]['text'] = PROPS[_k]['text'].rstrip() + _v

_EXTRA10 = {
 'C01': ' The operator substituted by operator_table keeps the Porter-Duff factors (C01-R15 = C09-R1).',
 'C02': ' Dither and every other non-flag field the general path tests before choosing the narrow pipeline reach the flags (C02-R24, defect F36 - fixed); tiled rotation copies are executed symbolically along every path (C02-R25); coordinate offsets of the convolution readers use the header fields of their own axis (C02-R13).',
 'C03': ' The direct trapezoid route is excluded under an effective source clip, by partial evaluation (C03-R5, defect F37 - fixed).',
 'C04': ' An image without pixels is never repeated: under width (height) = 0 and repeat != NONE the gate has no path to success (C04-R13, defect F39 - fixed).',
 'C05': ' When the result is operand k and nothing but "operand k has two rectangles" is known, the old rectangle array is always set aside (C05-R1, second clause).',
 'C06': ' Clamped rectangles are re-validated on every path (C06-R12, defect F38 - fixed).',
 'C07': ' Clamped rectangles are re-validated on every path (C07-R16, defect F38 - fixed); a clamp is a constant stored under a comparison with that constant (C07-R11).',
 'C08': ' Nearest scanlines wrap in a loop (C08-R17); tiled rotation copies hand every tile the source rows of its columns (C08-R18).',
 'C09': ' The solid pseudo-format is not substituted under a filter whose fetcher reads filter_params (C09-R9, defect F35 - fixed).',
 'C10': ' Scanline readers carry no loaded value round their pixel loop (C10-R16).',
 'C11': ' The rounding-up idiom x + 0xffff is guarded (C11-R15, defect F6 - fixed).',
 'C12': ' The a1 rounding offset is added in 64 bits (C12-R15, defect F34 - fixed); the extents helper returns trapezoid coordinates in both branches (C12-R16: the tree does not - known finding F40).',
 'C13': ' Sums in the gradient scanline functions combine equal homogeneous degrees outside the w == 1 branch (C13-R13).',
 'C14': ' The derived format code follows the filter (C14-R10, defect F35 - fixed) and the flags follow the dither setting (C14-R11, defect F36 - fixed).',
 'C17': ' A glyph copied into an image of its own format keeps its palette (C17-R9, defect F33 - fixed).',
 'C18': ' Stores outside the two passes of the table writer go through the rewound pointer (C18-R2); header comparisons on the separable path of the setter stay within one axis (C18-R5).',
 'C19': ' The shortcut branches also require dither == NONE (C19-R13, defect F36 - fixed).',
}
for _k, _v in _EXTRA10.items():
    PROPS[_k]['text'] = PROPS[_k]['text'].rstrip() + _v

_EXTRA11 = {
 'C01': ' Iterators that call the per-format fetch functions directly require NO_ALPHA_MAP (C02-R1i, run for C01 as well).',
 'C02': ' Lane-0 broadcasts of colour pixels are not taken for alpha (C02-R10); is_opaque is applied to unpacked pixels only (C02-R27, defect F43 - fixed); the y phase of the convolution readers follows the pixel (C02-R26).',
 'C03': ' A narrowing between the height clamp and the row undoes the clamp (C03-R2); the direct fill passes the image bounds on every path (C03-R15).',
 'C04': ' The hull of the transformed corners is trusted only while w keeps its sign (C04-R14, defect F41 - fixed); an image without pixels loses FAST_PATH_NO_ACCESSORS (C04-R15, defect F42 - fixed).',
 'C05': ' A rectangle empty on one axis alone never becomes a one-rectangle region (C05-R11, second clause).',
 'C06': ' A rectangle empty on one axis alone never becomes a one-rectangle region (C06-R10, second clause).',
 'C07': ' Translation amounts are the function\'s own parameters of the matching axis (C07-R17).',
 'C08': ' Each phase extraction takes a coordinate that varies with the pixel (C08-R19).',
 'C09': ' The COVER_CLIP promotion to opaque relies on extents that hold only while w keeps its sign (C09-R10, defect F41 - fixed); converted pixels get the alpha mask on every branch (C09-R11).',
 'C10': ' Every call through a convert_pixel callback is or-ed with the alpha mask (C10-R17).',
 'C11': ' The caller\'s matrices are written by the matrix product or under bottom row == (0, 0, 1) (C11-R16).',
 'C12': ' Extents follow the lines, not their end points (C12-R17: the tree does not - known finding F45).',
 'C13': ' Gradient scanlines skip a pixel only on the whole mask word (C13-R14).',
 'C16': ' Source iterators and their fini callbacks do not write their image (C16-R7).',
 'C17': ' The cached copy is created cleared (C17-R9).',
 'C19': ' Every path to the direct fill passes the image bounds (C19-R14).',
}
for _k, _v in _EXTRA11.items():
    PROPS[_k]['text'] = PROPS[_k]['text'].rstrip() + _v

_EXTRA12 = {
 'C04': ' A constant is added to a transform matrix element in 64 bits only (C04-R16, defect F46 - fixed); the header fields of a kernel block are bounded before it is installed (C04-R17, defect F47 - fixed).',
 'C09': ' The COVER_CLIP flags (and the opaque promotion that follows) are derived from the transformed corners only for affine transforms (C09-R12, defect F48 - fixed).',
 'C13': ' The reflected conical angle keeps its half-open interval (C13-R15, defect F49 - fixed).',
 'C18': ' Every header field of a kernel block is bounded below, shift counts above too, on every installing path (C18-R13, defect F47 - fixed).',
}
_EXTRA12.update({
 'C01': ' What acts on "source and mask are one buffer" has compared the offsets (C01-R16).',
 'C02': ' No 64-bit division takes a numerator formed in 32 bits (C02-R28); pixbuf detection compares the offsets (C02-R29).',
 'C03': ' A signed coordinate is split with shift and mask, never / or % (C03-R16).',
 'C06': ' Overflow variables are computed at full width (C06-R13 = C07-R1).',
 'C07': ' Allocation failures in the region units are never swallowed (C07-R18 = C15-R7).',
 'C08': ' A refused set_filter stores nothing (C08-R20 = C15-R9); 64-bit divisions have 64-bit numerators (C08-R21).',
 'C10': ' The YUV readers clamp signed (C10-R18); formats without channel sizes expand as a8r8g8b8 (C10-R19).',
 'C11': ' Floating-point conversions are guarded against NaN as well (C11-R6, defect F50 - fixed).',
 'C12': ' pixman_edge_step keeps the error term in the closed interval [-dy, 0] in both directions (C12-R18, defect F51 - fixed); operators with a zero-source effect are never refused by the extents helper (C12-R19); products with an edge increment are 64-bit (C12-R20).',
 'C14': ' A refused setter stores nothing (C14-R12); boolean arguments of the combiner lookup are truth values (C14-R13).',
 'C15': ' No allocation size is a widened 32-bit product (C15-R13).',
 'C16': ' Every return of a drawing entry point passes the validation of its sources (C16-R8, defect F52 - fixed).',
 'C17': ' The MRU tail is taken for a glyph only under a live-glyph test (C17-R10).',
 'C19': ' Coordinates are split with floor semantics (C19-R15); box32 coordinates are never truncated to 16 bits (C19-R16).',
 'C20': ' A half-built image is released raw, not through the finaliser (C20-R10).',
})
for _k, _v in _EXTRA12.items():
    PROPS[_k]['text'] = PROPS[_k]['text'].rstrip() + _v

_EXTRA13 = {
 'C09': ' An opaque gradient delivers opaque pixels: packed channels are clamped (C09-R14, defect F53 - fixed); an opaque mask still clips (C09-R15 = C03-R10).',
 'C11': ' A zero homogeneous coordinate is reported on every path (C11-R17); division digit shortcuts are strict (C11-R18).',
 'C13': ' Packed channels are clamped (C13-R16, defect F53 - fixed); the walker position is narrowed only under the repeat masks (C13-R17).',
 'C15': ' The operand data parked by pixman_op is released on every exit (C15-R14).',
 'C03': ' The raw trapezoid entry points do not consult the destination clip (C03-R17: known finding F54).',
}
for _k, _v in _EXTRA13.items():
    PROPS[_k]['text'] = PROPS[_k]['text'].rstrip() + _v

_EXTRA14 = {
 'C02': ' A tap outside a REPEAT_NONE image is transparent in the fast fetchers as in the general ones (C02-R30 = C09-R6).',
 'C04': ' Composite routines are dispatched only after the extent analysis (C04-R19, defect F44 - fixed); the bitmap import reads a row only if it has pixels and its partial word only if there is one (C04-R20, C04-R21, defect F56 - fixed).',
 'C06': ' Nothing is coalesced after the bulk append (C06-R14); the subtract fence follows its cursor (C06-R15 = C05-R8).',
 'C07': ' The bitmap import reads nothing of an image without pixels (C07-R19, defect F56 - fixed) and the partial word only when there is one (C07-R20).',
 'C14': ' Setters of bits-image members test the image type (C14-R14, defect F55 - fixed).',
}
for _k, _v in _EXTRA14.items():
    PROPS[_k]['text'] = PROPS[_k]['text'].rstrip() + _v

_EXTRA15 = {
 'C02': ' DST is never dispatched (C02-R31, defect F57 - fixed).',
 'C04': ' A single-pixel reader addresses pixels with the bytes per pixel of its row (C04-R22).',
 'C06': ' The clamp constants of translate are the limits of the coordinate type (C06-R16 = C07-R11).',
 'C08': ' PAD rows name loops that pad with the edge pixel (C08-R22); the kernel window is placed from the rounded position (C08-R23).',
 'C10': ' Iterators that read bits directly are registered for images without accessors only (C02-R1i, run for C10).',
 'C12': ' The deferred span is written out at its saved bounds (C12-R21).',
 'C16': ' composite_triangles and composite_glyphs validate before they return (C16-R8 through callees, defect F58 - fixed).',
}
for _k, _v in _EXTRA15.items():
    PROPS[_k]['text'] = PROPS[_k]['text'].rstrip() + _v

_EXTRA16 = {
 'C03': ' The rectangle list of the fill region is taken after the clip intersection (C03-R18).',
 'C11': ' A division by a zero-tested value lies behind the test (C11-R19).',
 'C13': ' The REFLECT segment is mirrored from its old bounds (C13-R18).',
 'C15': ' The release loops of the region validator start at the first element (C15-R15).',
 'C17': ' The single-pixel packers of the glyph fast paths keep every bit (C17-R11 = C02-R16).',
 'C19': ' The rectangle list of the fill region is taken after the clip intersection (C19-R17).',
}
for _k, _v in _EXTRA16.items():
    PROPS[_k]['text'] = PROPS[_k]['text'].rstrip() + _v

_EXTRA17 = {
 'C03': ' The C fill routines fill row by row (C03-R20); a region\'s extents are never assigned without its data (C03-R19).',
 'C05': ' Extents containment counts as coverage only for a single rectangle (C05-R14); extents and data change together (C05-R15).',
 'C07': ' Translate computes every coordinate from the box at hand (C07-R21); the bitmap import reads the bitmap itself (C07-R22).',
 'C11': ' The matrix unit keeps no state (C11-R20); every element of a product is computed from products (C11-R21).',
 'C13': ' The stop search starts at the first stop (C13-R19); the horizontal verdict looks at the y column of the transform (C13-R20).',
 'C19': ' fill_boxes reports success only after a drawing route was set up (C19-R18); the C fills work row by row (C19-R19).',
}
for _k, _v in _EXTRA17.items():
    PROPS[_k]['text'] = PROPS[_k]['text'].rstrip() + _v

_EXTRA18 = {
 'C04': ' The direct fill is bounded by the image on every path (C04-R23 = C19-R14).',
 'C06': ' Subtract and inverse recompute the extents after the band merger (C06-R17).',
 'C18': ' The filter generator keeps no state between calls (C18-R14).',
 'C20': ' The finaliser looks at the alpha map on every path (C20-R11).',
}
for _k, _v in _EXTRA18.items():
    PROPS[_k]['text'] = PROPS[_k]['text'].rstrip() + _v
