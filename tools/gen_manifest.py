#!/usr/bin/env python3
"""Regenerates /verif/MANIFEST.json from the per-property table below; a property is claimed only if
pxv/props/<id>.py exists.  Keeps the manifest valid at all times."""
import json, os, sys
V = os.path.dirname(os.path.dirname(os.path.abspath(__file__)))
sys.path.insert(0, V)
from tools.manifest_data import PROPS, NA_REASONS

checks = []; na = []
for pid in ['C%02d' % i for i in range(1, 21)]:
    have = os.path.exists(os.path.join(V, 'pxv', 'props', pid.lower() + '.py'))
    if have and pid in PROPS:
        p = PROPS[pid]
        checks.append(dict(
            property_id=pid,
            quick_cmd='./check %s --tier quick' % pid,
            thorough_cmd='./check %s --tier thorough' % pid,
            evidence_file='/verif/evidence/%s.json' % pid,
            replay_cmd_template='./check %s --replay {path}' % pid,
            engine='pxv',
            level_claimed=dict(category=p.get('category', 'other'), text=p['text'], design_ref='DESIGN.md §5 ' + pid),
            level_note=p['note'],
            technique=p['technique']))
    else:
        na.append(dict(property_id=pid, reason=NA_REASONS.get(pid, 'core (★) rules of DESIGN.md §5 not built yet; no other technique is substituted')))
m = dict(
    version=1,
    setup_cmd='sh engine/build.sh && python3 -m pxv.build',
    hooks=dict(guard='PIXMAN_VERIF', enable='no hooks are needed: checks compile /repo\'s sources (and shim units that #include them) to LLVM IR; nothing is built with a guard',
               baseline_off_cmd='meson test -C /repo/_build', source_commits=[], add_only=True),
    engines=[dict(name='pxv', path='/verif/pxv', serves_properties=[c['property_id'] for c in checks],
                  kind_free_text='static analysis: custom rules (Python) over facts extracted by engine/pxir.cc (LLVM-14 API) from clang -O0 -g + mem2reg IR of every library unit; '
                                 'bit-provenance abstract interpretation over -O2 IR of shim wrappers; compile-time witnesses (_Static_assert)')],
    checks=checks,
    notes='Every check recompiles /repo\'s working tree to IR (cached by content hash). Exit 0 = all rule instances hold; exit 1 + VIOLATION line = an instance not listed in known_findings.json fails; '
          'exit 2 + ANALYSIS-BROKEN = an anchor vanished / an instance could not be decided (never reported as pass or as violation). No pixman code is executed by any check.',
    not_applicable=na)
json.dump(m, open(os.path.join(V, 'MANIFEST.json'), 'w'), indent=1)
print('claimed', [c['property_id'] for c in checks], 'n/a', len(na))
