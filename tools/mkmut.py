#!/usr/bin/env python3
"""tools/mkmut.py <out.patch> <repo-relative file> <<< 'OLD\n====\nNEW'   — make a unified diff against /repo's current tree"""
import sys, subprocess, tempfile, os
out, rel = sys.argv[1], sys.argv[2]
old, new = sys.stdin.read().split('\n====\n')
new = new.rstrip('\n') if not new.endswith('\n\n') else new
src = open('/repo/' + rel).read()
if src.count(old.rstrip('\n')) != 1:
    sys.exit('OLD text occurs %d times in %s' % (src.count(old.rstrip('\n')), rel))
dst = src.replace(old.rstrip('\n'), new.rstrip('\n'))
with tempfile.TemporaryDirectory() as d:
    os.makedirs(os.path.join(d, 'a', os.path.dirname(rel))); os.makedirs(os.path.join(d, 'b', os.path.dirname(rel)))
    open(os.path.join(d, 'a', rel), 'w').write(src); open(os.path.join(d, 'b', rel), 'w').write(dst)
    r = subprocess.run(['diff', '-u', 'a/' + rel, 'b/' + rel], cwd=d, capture_output=True, text=True)
    mode = 'a' if os.path.exists(out) and '--append' in sys.argv else 'w'
    open(out, mode).write(r.stdout)
print('wrote', out)
